#!/usr/bin/env python3
# Regenerates MANIFEST.json from the table below (kept as a script so the file stays consistent).
import json
claimed = json.load(open('/verif/manifest_claims.json'))
props = [json.loads(l) for l in open('/verif/properties.jsonl')]
checks=[]; na=[]
for p in props:
    pid=p['id']
    if pid in claimed['checks']:
        c=claimed['checks'][pid]
        checks.append({
          "property_id": pid,
          "quick_cmd": f"./check {pid} quick",
          "thorough_cmd": f"./check {pid} thorough",
          "evidence_file": f"/verif/evidence/{pid}.json",
          "replay_cmd_template": "./check replay {path}",
          "engine": c['engine'],
          "level_claimed": {"category":"exploration","text":c['text'],"design_ref":c['design_ref']},
          "level_note": c['note'],
          "technique": c['technique'],
        })
    else:
        na.append({"property_id":pid,"reason":claimed['not_applicable'][pid]})
m={
 "version":1,
 "setup_cmd": "./setup.sh",
 "hooks": {"guard":"verif","enable":"none: no hooks were added to /repo; every seam the properties depend on is an interface, callback or channel the caller supplies (DESIGN.md section 6). The tag name is reserved and guards nothing.",
           "baseline_off_cmd":"cd /repo && go test -vet=off -count=1 -timeout 25m ./...","source_commits":[],"add_only":True},
 "engines": claimed['engines'],
 "checks": checks,
 "not_applicable": na,
 "notes": claimed['notes'],
}
json.dump(m,open('/verif/MANIFEST.json','w'),indent=1)
print(len(checks),'checks',len(na),'not applicable')
