package sim

import (
	"fmt"
	"reflect"
	"sort"
	"strconv"
	"strings"
	"time"
)

// V is the JSON form of a value that appears in a World (literal, constant,
// binding). Runtime values inside the harness are plain Go values of the types
// the engine works with (bool, int64, string, []int64, []string,
// map[int64]struct{}, map[string]struct{}, nil); V exists only so that a World
// can be written to and read from a replay file without loss.
type V struct {
	T  string   `json:"t"` // b i s il sl is ss nil | raw Go types for C11: int int8 int16 int32 uint8 uint16 uint32 uint64 []int []int32 time dur
	B  bool     `json:"b,omitempty"`
	I  int64    `json:"i,omitempty"`
	U  uint64   `json:"u,omitempty"`
	S  string   `json:"s,omitempty"`
	IL []int64  `json:"il,omitempty"`
	SL []string `json:"sl,omitempty"`
}

func VB(b bool) V        { return V{T: "b", B: b} }
func VI(i int64) V       { return V{T: "i", I: i} }
func VS(s string) V      { return V{T: "s", S: s} }
func VIL(l []int64) V    { return V{T: "il", IL: append([]int64{}, l...)} }
func VSL(l []string) V   { return V{T: "sl", SL: append([]string{}, l...)} }
func VISet(l []int64) V  { return V{T: "is", IL: append([]int64{}, l...)} }
func VSSet(l []string) V { return V{T: "ss", SL: append([]string{}, l...)} }
func VNil() V            { return V{T: "nil"} }

// Go returns the Go value handed to the engine (a fresh copy every time).
func (v V) Go() interface{} {
	switch v.T {
	case "b":
		return v.B
	case "i":
		return v.I
	case "s":
		return v.S
	case "il":
		return append([]int64{}, v.IL...)
	case "sl":
		return append([]string{}, v.SL...)
	case "is":
		m := make(map[int64]struct{}, len(v.IL))
		for _, x := range v.IL {
			m[x] = struct{}{}
		}
		return m
	case "ss":
		m := make(map[string]struct{}, len(v.SL))
		for _, x := range v.SL {
			m[x] = struct{}{}
		}
		return m
	case "nil":
		return nil
	// raw Go types (C11): what a user puts in the map handed to NewCtxFromVars
	case "int":
		return int(v.I)
	case "int8":
		return int8(v.I)
	case "int16":
		return int16(v.I)
	case "int32":
		return int32(v.I)
	case "uint8":
		return uint8(v.U)
	case "uint16":
		return uint16(v.U)
	case "uint32":
		return uint32(v.U)
	case "uint64":
		return v.U
	case "[]int":
		r := make([]int, len(v.IL))
		for i, x := range v.IL {
			r[i] = int(x)
		}
		return r
	case "[]int32":
		r := make([]int32, len(v.IL))
		for i, x := range v.IL {
			r[i] = int32(x)
		}
		return r
	case "time":
		return time.Unix(v.I, int64(v.U)).UTC()
	case "dur":
		return time.Duration(v.I)
	}
	panic("sim: bad V tag " + v.T)
}

// Norm returns the value the documentation says a binding of this Go type is
// normalised to (C11): all integer kinds to int64, []int/[]int32 to []int64,
// time.Time to Unix seconds, Duration to whole seconds. Written from the
// property statement, not from variable.go.
func (v V) Norm() interface{} {
	switch v.T {
	case "int", "int8", "int16", "int32":
		return v.I
	case "uint8", "uint16", "uint32", "uint64":
		return int64(v.U)
	case "[]int", "[]int32":
		return append([]int64{}, v.IL...)
	case "time":
		return v.I
	case "dur":
		return v.I / int64(time.Second)
	}
	return v.Go()
}

// FromGo converts a harness runtime value back to its JSON form.
func FromGo(x interface{}) V {
	switch t := x.(type) {
	case nil:
		return VNil()
	case bool:
		return VB(t)
	case int64:
		return VI(t)
	case string:
		return VS(t)
	case []int64:
		return VIL(t)
	case []string:
		return VSL(t)
	case map[int64]struct{}:
		l := make([]int64, 0, len(t))
		for k := range t {
			l = append(l, k)
		}
		sort.Slice(l, func(i, j int) bool { return l[i] < l[j] })
		return VISet(l)
	case map[string]struct{}:
		l := make([]string, 0, len(t))
		for k := range t {
			l = append(l, k)
		}
		sort.Strings(l)
		return VSSet(l)
	}
	return V{T: "s", S: fmt.Sprintf("<%T %v>", x, x)}
}

// CopyVal deep-copies a runtime value (lists are the only mutable ones the
// engine hands to operators).
func CopyVal(x interface{}) interface{} {
	switch t := x.(type) {
	case []int64:
		return append([]int64{}, t...)
	case []string:
		return append([]string{}, t...)
	case []interface{}:
		r := make([]interface{}, len(t))
		for i := range t {
			r[i] = CopyVal(t[i])
		}
		return r
	}
	return x
}

func CopyVals(xs []interface{}) []interface{} {
	r := make([]interface{}, len(xs))
	for i := range xs {
		r[i] = CopyVal(xs[i])
	}
	return r
}

// ValEq is structural equality on runtime values.
func ValEq(a, b interface{}) bool {
	return reflect.DeepEqual(a, b)
}

// ValStr renders a runtime value canonically (for logs, hashes and messages).
func ValStr(x interface{}) string { return valStr(x, 0) }

func valStr(x interface{}, depth int) string {
	if depth > 8 {
		return "<nested too deep: a value that contains itself?>"
	}
	switch t := x.(type) {
	case nil:
		return "nil"
	case bool:
		if t {
			return "true"
		}
		return "false"
	case int64:
		return strconv.FormatInt(t, 10)
	case string:
		return strconv.Quote(t)
	case []int64:
		var sb strings.Builder
		sb.WriteString("(")
		for i, v := range t {
			if i > 0 {
				sb.WriteByte(' ')
			}
			sb.WriteString(strconv.FormatInt(v, 10))
		}
		sb.WriteString(")")
		return sb.String()
	case []string:
		var sb strings.Builder
		sb.WriteString("(")
		for i, v := range t {
			if i > 0 {
				sb.WriteByte(' ')
			}
			sb.WriteString(strconv.Quote(v))
		}
		sb.WriteString(")")
		return sb.String()
	case map[int64]struct{}:
		return "set" + ValStr(FromGo(t).IL)
	case map[string]struct{}:
		return "set" + ValStr(FromGo(t).SL)
	case []interface{}:
		var sb strings.Builder
		sb.WriteString("[")
		for i, v := range t {
			if i > 0 {
				sb.WriteByte(' ')
			}
			sb.WriteString(valStr(v, depth+1))
		}
		sb.WriteString("]")
		return sb.String()
	case error:
		return "err:" + t.Error()
	}
	if rv := reflect.ValueOf(x); rv.Kind() == reflect.Slice && rv.Type().Elem().Kind() == reflect.Interface {
		// e.g. []eval.Value handed back by a user operator; may contain itself
		var sb strings.Builder
		fmt.Fprintf(&sb, "<%T:[", x)
		for i := 0; i < rv.Len(); i++ {
			if i > 0 {
				sb.WriteByte(' ')
			}
			sb.WriteString(valStr(rv.Index(i).Interface(), depth+1))
		}
		sb.WriteString("]>")
		return sb.String()
	}
	return fmt.Sprintf("<%T:%v>", x, x)
}
