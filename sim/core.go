package sim

import (
	"encoding/json"
	"fmt"
	"sort"
)

// Violation is a property violation found in one world. World is narrowed to
// the concrete run that failed (explicit plan, no enumeration flags), so that
// it can be shrunk and replayed on its own.
type Violation struct {
	Prop  string `json:"prop"`
	Kind  string `json:"kind"` // violation class, e.g. value-mismatch, extra-call, panic
	Msg   string `json:"msg"`
	World *World `json:"world"`
}

func (v *Violation) Class() string { return v.Prop + "/" + v.Kind }

// Stats is what a worker measured. Every number is counted by the machinery
// while it runs.
type Stats struct {
	Worlds  int64            `json:"worlds"`  // worlds generated and run
	Evals   int64            `json:"evals"`   // calls into the library (Compile, Eval, TryEval, Dump, ...)
	Skipped int64            `json:"skipped"` // engine/reference comparisons skipped as out of the property's domain
	Steps   int64            `json:"steps"`   // logical steps: seam calls served + scheduler decisions
	Ticks   int64            `json:"ticks"`   // simulated clock ticks covered (only where a simulated clock exists)
	Faults  map[string]int64 `json:"faults"`  // fault kinds that actually fired
	Probes  map[string]int64 `json:"probes"`  // reach probes

	worlds   map[uint64]struct{}
	nontriv  map[uint64]struct{}
	paths    map[uint64]struct{}
	scheds   map[uint64]struct{}
	Samples  []interface{} `json:"samples"`
	Tracing  bool          `json:"-"`
	trace    uint64
	TraceLog []string `json:"-"`
}

func NewStats() *Stats {
	return &Stats{
		Faults: map[string]int64{}, Probes: map[string]int64{},
		worlds: map[uint64]struct{}{}, nontriv: map[uint64]struct{}{},
		paths: map[uint64]struct{}{}, scheds: map[uint64]struct{}{},
	}
}

func (s *Stats) Probe(name string)         { s.Probes[name]++ }
func (s *Stats) ProbeN(name string, n int) { s.Probes[name] += int64(n) }
func (s *Stats) World(h uint64)            { s.worlds[h] = struct{}{} }
func (s *Stats) Nontrivial(h uint64)       { s.nontriv[h] = struct{}{} }
func (s *Stats) Path(h uint64)             { s.paths[h] = struct{}{} }
func (s *Stats) Sched(h uint64)            { s.scheds[h] = struct{}{} }
func (s *Stats) AddFaults(m map[string]int) {
	for k, v := range m {
		s.Faults[k] += int64(v)
	}
}

// T appends one event to the determinism trace of the current world. It is a
// no-op unless tracing is on, and never draws from a PRNG or reads a clock.
func (s *Stats) T(format string, a ...interface{}) {
	if !s.Tracing {
		return
	}
	line := fmt.Sprintf(format, a...)
	s.trace = (s.trace ^ hash64(line)) * 0x100000001b3
	if len(s.TraceLog) < 4000 {
		s.TraceLog = append(s.TraceLog, line)
	}
}

// Sample keeps a few compact worlds for the evidence file.
func (s *Stats) Sample(x interface{}) {
	if len(s.Samples) >= 4 {
		return
	}
	if b, err := json.Marshal(x); err != nil || len(b) > 700 || len(b) < 120 {
		return
	}
	s.Samples = append(s.Samples, x)
}

// Prop is one property's simulation: how worlds are generated and how one
// world is run and judged.
type Prop interface {
	ID() string
	Gen(r *Rng, tier string) *World
	Run(w *World, st *Stats) *Violation
}

var registry = map[string]Prop{}

func Register(p Prop) { registry[p.ID()] = p }

func PropIDs() []string {
	ids := make([]string, 0, len(registry))
	for id := range registry {
		ids = append(ids, id)
	}
	sort.Strings(ids)
	return ids
}

func setKeys(m map[uint64]struct{}) []uint64 {
	r := make([]uint64, 0, len(m))
	for k := range m {
		r = append(r, k)
	}
	sort.Slice(r, func(i, j int) bool { return r[i] < r[j] })
	return r
}

func viol(w *World, kind, format string, a ...interface{}) *Violation {
	return &Violation{Prop: w.Prop, Kind: kind, Msg: fmt.Sprintf(format, a...), World: w}
}
