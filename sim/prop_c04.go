package sim

import (
	"fmt"
	"sort"
	"strconv"
	"strings"

	"github.com/onheap/eval"
)

// C04 — TryEval answers are never contradicted by fetching more variables.
// C05 — TryEval is at least as informative as three-valued (Kleene) evaluation.
//
// Both run over the same simulated environment: a remote variable store with a
// per-request cache that truthfully reports which variables are available.
// Two workloads: static splits (every available/unavailable split of the
// referenced variables) and discrete-event timelines (variables arrive after a
// simulated latency, fetches fail and are retried, entries are evicted, a
// prober calls TryEval at chosen instants).
type propC04 struct{ id string }

func init() {
	Register(propC04{"C04"})
	Register(propC04{"C05"})
	meta["C04"] = propMeta{
		Rule: "A case is one world: generated program (may contain failing sub-expressions) compiled under 2 option subsets, a full binding, and either (a) every available/unavailable split of the referenced variables (all 2^n up to n=8) with, for each split on which TryEval is definite, real Eval runs over completions of the unavailable variables drawn from small typed domains (exhaustive up to a cap, sampled beyond), or (b) a discrete-event timeline of warm/evict/fetch-retry events on a logical clock with TryEval probes. Checked: soundness against every completion on which Eval succeeds, TryEval/Eval agreement when everything is available, monotonicity along growing availability. evaluations = calls into the library. non-trivial = distinct worlds with and/or/if, at least two referenced variables and at least one split on which TryEval was definite with something unavailable.",
		Assumptions: []string{
			"the fetcher is truthful: Cached reports exactly the available set and Get of an available variable succeeds",
			"completion domains are small and typed (bool: both; int: -1,0,1,2 and the bound value; strings/lists: small pools including values that make sub-expressions fail)",
			"'TryEval and Eval agree when all variables are available' is read as same outcome (value with equal value, error with error, never DNE)",
			"sampling: a clean batch is evidence, not proof",
		},
		Engines:    []string{"INLINE", "TIMELINE (discrete-event, logical clock)"},
		FaultKinds: []string{"unavailable", "warm", "evict", "fetch_retry"},
		Clock:      true,
	}
	meta["C05"] = propMeta{
		Rule: "A case is one world as for C04, restricted to programs in which the strict reference interpreter finds no failing sub-expression under the full binding (the property's domain; other worlds are skipped and counted). For every split (and every timeline probe) an independent Kleene interpreter is run on the source tree: whenever it is definite TryEval must return exactly that value; TryEval must never return an error; when it does not decide it must return DNE (TryEvalBool: ErrDNE). evaluations = calls into the library. non-trivial = distinct worlds with and/or/if, at least two referenced variables and at least one split on which Kleene is definite although something is unavailable.",
		Assumptions: []string{
			"the Kleene interpreter is hand-written from the property statement",
			"TryEval being more informative than Kleene is allowed (its soundness is C04's business)",
			"the fetcher is truthful",
			"sampling: a clean batch is evidence, not proof",
		},
		Engines:    []string{"INLINE", "TIMELINE (discrete-event, logical clock)"},
		FaultKinds: []string{"unavailable", "warm", "evict", "fetch_retry"},
		Clock:      true,
	}
}

func (p propC04) ID() string { return p.id }

// varsRead: the variables the program reads — mentioned as operands, or looked
// up by a `probe` operator the program calls.
func varsRead(w *World) []string {
	vars := referencedVars(w.Prog)
	for _, o := range w.Cfg.Ops {
		if o.Kind != "probe" {
			continue
		}
		called, have := false, false
		w.Prog.Walk(func(x *Node) {
			if x.K == KOp && x.Name == o.Name {
				called = true
			}
		})
		for _, v := range vars {
			if v == o.Var {
				have = true
			}
		}
		if called && !have {
			vars = append(vars, o.Var)
			sort.Strings(vars)
		}
	}
	return vars
}

func referencedVars(n *Node) []string {
	seen := map[string]bool{}
	n.Walk(func(x *Node) {
		if x.K == KVar {
			seen[x.Name] = true
		}
	})
	r := make([]string, 0, len(seen))
	for k := range seen {
		r = append(r, k)
	}
	sort.Strings(r)
	return r
}

func (p propC04) Gen(r *Rng, tier string) *World {
	k := DrawKnobs(r)
	k.PUnbound = 0
	k.RootBool = r.P(0.85)
	k.BoolBias = []float64{2, 4, 6}[r.Intn(3)]
	if k.NVars < 2 {
		k.NVars = r.Range(2, 6)
	}
	if p.id == "C05" {
		// domain: nothing fails; keep failing material rare so most worlds qualify
		k.PIll, k.PIllCond, k.FailOp = 0, 0, false
		k.WeirdStr = false
	} else if r.P(0.5) {
		k.FailOp = true
	}
	k.TupleOp = r.P(0.25)
	if k.TupleOp && k.NOps == 0 {
		k.NOps = r.Range(1, 3)
	}
	g := NewGen(r, k)
	if len(g.C.Vars) > 0 && r.P(0.2) {
		// an operator that looks a variable up by itself and hands back DNE when
		// the store does not have it yet (a sub-rule's TryEval wrapped in an
		// operator): not available is not available, wherever it comes from
		v := g.C.Vars[r.Intn(len(g.C.Vars))]
		if v.Ty == TBool || v.Ty == TInt || v.Ty == TStr {
			g.C.Ops = append(g.C.Ops, OpSpec{Name: "lookup_it", Kind: "probe", Ret: v.Ty, Arity: 0, Var: v.Name})
			g.ob[v.Ty] = append(g.ob[v.Ty], len(g.C.Ops)-1)
		}
	}
	w := &World{Prop: p.id}
	// bias towards programs that mention several variables
	best := g.Program()
	for i := 0; i < 4; i++ {
		if len(referencedVars(best)) >= 2 {
			break
		}
		best = g.Program()
	}
	w.Prog = best
	if len(g.by[TBool]) > 0 && r.P(0.02) {
		// a very wide and/or (up to the 127-operand limit): operand stacks far
		// beyond anything the typed generator builds
		name := PickS(r, []string{"and", "or", "&", "||"})
		n := r.Range(60, 120) // flattening with the wrapper below must stay within 127
		kids := make([]*Node, n)
		main := g.by[TBool][r.Intn(len(g.by[TBool]))] // mostly one variable: often nothing decides
		neutral := IsAndName(name)
		for i := range kids {
			switch x := r.Intn(20); {
			case x < 15:
				kids[i] = Var(main)
			case x < 17:
				kids[i] = Lit(VB(neutral))
			case x < 19:
				kids[i] = Var(g.by[TBool][r.Intn(len(g.by[TBool]))])
			default:
				kids[i] = Lit(VB(r.P(0.5)))
			}
		}
		w.Prog = Op(name, kids...)
		if r.P(0.5) {
			w.Prog = Op(PickS(r, []string{"or", "and"}), w.Prog, g.Leaf(TBool))
		}
	}
	var neutralVars []string
	neutralVal := false
	if len(g.by[TBool]) >= 2 && r.P(0.03) {
		// an and/or of 3-40 operands (the engine treats up to 16 and more than
		// 16 differently) in which every operand but one is an available,
		// non-deciding variable and the odd one out sits at a chosen position,
		// often the last
		name := PickS(r, []string{"and", "or", "&&", "|"})
		n := []int{3, 8, 15, 16, 17, 18, 24, 33, 40}[r.Intn(9)]
		bs := g.by[TBool]
		odd := bs[r.Intn(len(bs))]
		kids := make([]*Node, n)
		for i := range kids {
			v := bs[r.Intn(len(bs))]
			for v == odd {
				v = bs[r.Intn(len(bs))]
			}
			kids[i] = Var(v)
			neutralVars = append(neutralVars, v)
		}
		pos := []int{n - 1, n - 1, 0, r.Intn(n)}[r.Intn(4)]
		kids[pos] = Var(odd)
		neutralVal = IsAndName(name)
		w.Prog = Op(name, kids...)
	}
	w.Cfg = g.C
	w.Cfg.ViaDirect = r.P(0.2)
	w.Cfg.DirStyle = r.Intn(8)
	w.Cfg.ViaAPI = r.P(0.4)
	w.Cfg.Event = []string{"", "", "", "", "report"}[r.Intn(5)]
	m1 := r.Intn(16)
	w.Masks = []int{m1, []int{0, 15, (m1 + 5) % 16}[r.Intn(3)]}
	w.API = []string{"tryeval", "tryeval", "tryevalbool"}[r.Intn(3)]
	full := Plan{Bind: g.Binding()}
	for _, v := range neutralVars {
		full.Bind[v] = VB(neutralVal)
	}
	w.Calls = []Plan{full}
	w.Extra = map[string]string{}
	if tier == "thorough" {
		w.Extra["deep"] = "1" // more completions per definite answer
	}
	if r.P(0.25) {
		w.Extra["fresh_ctx"] = "1" // a new Ctx per call instead of one per request
	}
	if r.P(0.3) {
		w.Extra["sibling"] = "1"
	}
	if p.id == "C04" && len(w.Cfg.Vars) > 0 && r.P(0.08) {
		// an available variable whose value is nil (a missing attribute the
		// store knows to be absent): a value like any other for eq/ne and user
		// operators, a type error elsewhere — for Eval and TryEval alike
		// (never a boolean-typed variable: nil under and/or leaves the domain)
		var cand []string
		for _, v := range w.Cfg.Vars {
			if v.Ty != TBool {
				cand = append(cand, v.Name)
			}
		}
		if len(cand) > 0 {
			w.Calls[0].Bind[cand[r.Intn(len(cand))]] = VNil()
			w.Extra["nil_bind"] = "1"
		}
	}
	if r.P(0.4) {
		w.Extra["lazy_get"] = "1"
	}
	if r.P(0.3) {
		w.Extra["slice_fetcher"] = "1"
	}
	if w.Cfg.Undefined && r.P(0.4) {
		w.Extra["real_fetcher"] = "1"
	} else if p.id == "C04" && r.P(0.15) {
		// a custom fetcher (or values stored with Set) may hand out Go types the
		// library's own fetchers would have normalised; Eval and TryEval must
		// still see the same thing (never combined with the real fetcher, which
		// normalises on construction)
		for _, v := range w.Cfg.Vars {
			if v.Ty == TInt && r.P(0.5) {
				w.Calls[0].Bind[v.Name] = rawValue(g, TInt)
			}
		}
	}
	if r.P(0.7) {
		w.EnumSplits = true
		w.EnumFaults = r.P(0.4)
		return w
	}
	// timeline
	vars := varsRead(w)
	if len(vars) == 0 {
		w.EnumSplits = true
		return w
	}
	n := r.Range(4, 24)
	for i := 0; i < n; i++ {
		v := vars[r.Intn(len(vars))]
		lat := fmt.Sprint(r.Range(1, 50))
		switch x := r.Intn(10); {
		case x < 5:
			w.Steps = append(w.Steps, Step{Op: "warm", Name: v, Arg: lat})
		case x < 6:
			w.Steps = append(w.Steps, Step{Op: "evict", Name: v, Arg: lat})
		case x < 7:
			w.Steps = append(w.Steps, Step{Op: "fetch_fail", Name: v, Arg: lat})
		default:
			w.Steps = append(w.Steps, Step{Op: "probe", Arg: lat})
		}
	}
	if w.Extra["real_fetcher"] == "1" {
		// a second request after the first: its own binding, its own (empty) context
		w.Calls = append(w.Calls, Plan{Bind: g.Binding()})
		w.Extra["two_requests"] = "1"
	}
	// faults stop: everything still missing arrives, then a final probe
	for _, pi := range r.Perm(len(vars)) {
		w.Steps = append(w.Steps, Step{Op: "warm", Name: vars[pi], Arg: fmt.Sprint(r.Range(1, 50))})
	}
	w.Steps = append(w.Steps, Step{Op: "probe", Arg: "1"})
	return w
}

// completionDomain: candidate values for an unavailable variable.
func completionDomain(ty Ty, bound V) []V {
	switch ty {
	case TBool:
		return []V{VB(true), VB(false)}
	case TInt:
		d := []V{VI(-1), VI(0), VI(1), VI(2)}
		if bound.I < -1 || bound.I > 2 {
			d = append(d, bound)
		}
		return d
	case TStr:
		d := []V{VS(""), VS("a"), VS("1.2.3"), VS("2021-01-01")}
		dup := false
		for _, x := range d {
			if x.S == bound.S {
				dup = true
			}
		}
		if !dup {
			d = append(d, bound)
		}
		return d
	case TIntList:
		return []V{VIL(nil), VIL([]int64{1}), VIL([]int64{0, 2}), bound}
	case TStrList:
		return []V{VSL(nil), VSL([]string{"a"}), bound}
	case TIntSet:
		return []V{VISet(nil), VISet([]int64{1}), bound}
	case TStrSet:
		return []V{VSSet(nil), VSSet([]string{"a"}), bound}
	}
	return []V{bound}
}

func isDefinite(o *Outcome, api string) bool {
	if o.Err != nil || o.Panic != nil {
		return false
	}
	return o.Val != eval.DNE
}

func (pr propC04) Run(w *World, st *Stats) *Violation {
	ops := SpecMap(w.Cfg.Ops)
	nilOps := false // a user operator that legitimately returns nil is configured
	for _, o := range w.Cfg.Ops {
		if o.Ret == TAny {
			nilOps = true
		}
	}
	wh := w.Hash()
	st.World(wh)
	full := &w.Calls[0]
	vars := varsRead(w)
	tyOf := map[string]Ty{}
	for _, v := range w.Cfg.Vars {
		tyOf[v.Name] = v.Ty
	}
	api := w.API
	if api == "" || (api == "tryevalbool" && StaticType(&w.Cfg, w.Prog) != TBool) {
		// TryEvalBool on a non-boolean program only adds its own type error
		api = "tryeval"
	}
	isC05 := pr.id == "C05"
	consts := w.Cfg.ConstVals()
	if isC05 {
		// domain: no sub-expression fails under the full binding
		senv := NewEnv(ops, full)
		if _, err := (&Interp{Consts: consts, Env: senv}).Strict(w.Prog); err != nil {
			st.Skipped++
			st.Probe("skipped_program_can_fail")
			return nil
		}
	}
	control := hasControl(w.Prog)
	masks := w.Masks
	if len(masks) == 0 {
		masks = []int{w.Cfg.OptMask}
	}
	for _, mask := range masks {
		mw := w
		if len(masks) > 1 {
			mw = w.Clone()
			mw.Masks = []int{mask}
		}
		cenv := NewEnv(ops, &Plan{})
		c, err, pan := CompileSpec(&w.Cfg, w.Prog, mask, w.Cfg.ViaDirect, cenv)
		st.Evals++
		if pan != nil {
			return viol(mw, "compile-panic", "Compile panicked: %v", pan)
		}
		if err != nil {
			return viol(mw, "compile-error", "Compile rejected a well-formed program: %v", err)
		}
		st.T("world %x mask %d src=%s", wh, mask, w.Prog.Src())
		splitMode := w.EnumSplits
		_, single := w.Extra["unavail"]
		if single && len(w.Steps) == 0 {
			splitMode = true
		}
		// ns narrows the world to one split (static-split mode); timelines stay whole
		ns := func(unavail []string) *World {
			if !w.EnumSplits {
				return mw
			}
			c := mw.Clone()
			c.EnumSplits = false
			c.Extra = map[string]string{}
			for k, v := range w.Extra {
				c.Extra[k] = v // every variant flag of the world stays with the narrowed witness
			}
			c.Extra["unavail"] = strings.Join(unavail, ",")
			return c
		}

		// tryAt runs TryEval with exactly `unavail` unavailable.
		// One request, one Ctx: the same *eval.Ctx (and fetcher object) serves
		// every TryEval of this world, as in the deployment the README
		// describes; only what the fetcher reports changes between calls.
		reqFetcher := &SimFetcher{}
		var varNamesAll []string
		for _, v := range w.Cfg.Vars {
			varNamesAll = append(varNamesAll, v.Name)
		}
		reqCtx := &eval.Ctx{VariableFetcher: WrapFetcher(w.Cfg.Fetcher, reqFetcher, varNamesAll)}
		reuse := w.Extra["fresh_ctx"] != "1"
		var realCtx *eval.Ctx // set per request in real-fetcher timelines
		// A request's Ctx is also shared by rules compiled under OTHER configs
		// (a name-keyed fetcher makes that legitimate): a sibling compiled from
		// the same source with the variable keys rotated is evaluated on the
		// same Ctx right before every TryEval of the rule under test.
		var sibling *Compiled
		if w.Extra["sibling"] == "1" && reuse {
			cfg2 := w.Cfg
			cfg2.Vars = append([]VarSpec(nil), w.Cfg.Vars...)
			var regIdx []int
			for i, v := range cfg2.Vars {
				if v.Reg {
					regIdx = append(regIdx, i)
				}
			}
			if len(regIdx) >= 2 {
				first := cfg2.Vars[regIdx[0]].Key
				for k := 0; k+1 < len(regIdx); k++ {
					cfg2.Vars[regIdx[k]].Key = cfg2.Vars[regIdx[k+1]].Key
				}
				cfg2.Vars[regIdx[len(regIdx)-1]].Key = first
				sc, serr, span := CompileSpec(&cfg2, w.Prog, mask, w.Cfg.ViaDirect, NewEnv(ops, &Plan{}))
				if serr == nil && span == nil {
					sibling = sc
					st.Probe("sibling_rule_with_rotated_keys")
				}
			}
		}
		failAt := -1
		tryAt := func(unavail []string, clock int64) (*Plan, Outcome) {
			p := full.Clone()
			p.Kind = api
			if clock != 0 {
				p.Clock = clock
			}
			p.Unavail = unavail
			if w.Extra["lazy_get"] != "1" {
				for _, n := range unavail {
					delete(p.Bind, n)
				}
			}
			// (lazy_get: the store still holds the true value of a variable that
			// is not cached — Get would be the expensive remote call and would
			// succeed. TryEval has no business making it; if it does, its answer is
			// judged like any other.)
			if failAt >= 0 {
				p.FailAt = []int{failAt}
			}
			var o Outcome
			if realCtx != nil && failAt < 0 {
				// timeline with the library's own map fetcher: ONE context per
				// request, created empty, filled by Set as values arrive (the
				// TryEval -> DNE -> fetch -> Set -> TryEval flow of the README)
				env := NewEnv(ops, &p)
				env.Phase = "tryeval"
				c.Host.CompileEnv = env
				o = c.RunCtx(realCtx, env, p.Kind)
				c.Host.CompileEnv = nil
				st.Probe("real_map_fetcher_set_flow_probes")
			} else if w.Extra["real_fetcher"] == "1" && w.Cfg.Undefined && failAt < 0 {
				// the library's own map-backed fetcher (NewCtxFromVars in
				// undefined-variable mode): a variable is available iff it is in
				// the map handed over
				vals := map[string]interface{}{}
				gone := map[string]bool{}
				for _, n := range unavail {
					gone[n] = true
				}
				for n, v := range p.Bind {
					if !gone[n] { // (under lazy_get the plan still holds their values)
						vals[n] = v.Go()
					}
				}
				env := NewEnv(ops, &p)
				env.Phase = "tryeval"
				c.Host.CompileEnv = env // user operators find their Env here: the Ctx carries a real fetcher
				o = c.RunCtx(eval.NewCtxFromVars(c.Conf, vals), env, p.Kind)
				c.Host.CompileEnv = nil
				st.Probe("real_map_fetcher_runs")
			} else if reuse {
				if sibling != nil {
					senv := NewEnv(ops, &p)
					reqFetcher.E = senv
					so := sibling.RunCtx(reqCtx, senv, p.Kind)
					st.Evals++
					if so.Panic != nil && !so.Abort {
						o = so
						o.Panic = fmt.Sprintf("sibling rule (same source, rotated keys) on the shared Ctx: %v", so.Panic)
						return &p, o
					}
				}
				env := NewEnv(ops, &p)
				env.Phase = "tryeval"
				reqFetcher.E = env
				o = c.RunCtx(reqCtx, env, p.Kind)
			} else {
				o = c.Run(ops, &p, "tryeval")
			}
			st.Evals++
			st.Steps += int64(o.Env.N + len(o.Env.Cached_))
			st.AddFaults(o.Env.Fired)
			st.Path(pathHash(&o) ^ hash64(fmt.Sprint(unavail)))
			st.T(" try unavail=%v -> %s %s", unavail, o.Class(), ValStr(o.Val))
			return &p, o
		}
		evalClock := int64(0)
		evalFull := func(bind map[string]V) Outcome {
			p := Plan{Bind: bind, Clock: evalClock}
			o := c.Run(ops, &p, "eval")
			st.Evals++
			st.Steps += int64(o.Env.N)
			return o
		}
		// normalise a TryEvalBool outcome to TryEval's vocabulary
		norm := func(o *Outcome) {
			if api == "tryevalbool" && o.Err == eval.ErrDNE {
				o.Err, o.Val = nil, eval.DNE
			}
		}
		// judge one probe (a TryEval outcome under a given unavailable set)
		judge := func(p *Plan, o *Outcome, unavail []string) *Violation {
			if o.Panic != nil {
				return viol(ns(unavail), "panic", "TryEval panicked: %v\n%s", o.Panic, o.Stack)
			}
			raw := *o
			norm(o)
			if isC05 {
				kenv := NewEnv(ops, p)
				kv, kerr := (&Interp{Consts: consts, Env: kenv}).Kleene(w.Prog)
				if _, ood := kerr.(*OutOfDomain); ood || kerr != nil {
					st.Skipped++
					return nil
				}
				if o.Err != nil {
					return viol(ns(unavail), "error-in-domain", "no sub-expression can fail, yet TryEval returned error %v (unavailable: %v)", o.Err, unavail)
				}
				if kv != Unknown {
					if len(unavail) > 0 {
						st.Probe("kleene_definite_with_unavailable")
						if control && len(vars) >= 2 {
							st.Nontrivial(wh)
						}
					}
					want := kv
					if api == "tryevalbool" {
						if _, ok := want.(bool); !ok {
							// TryEvalBool on a non-boolean result: its own error; nothing to compare
							return nil
						}
					}
					if o.Val == eval.DNE {
						return viol(ns(unavail), "less-informative", "three-valued evaluation yields %s, TryEval reports DNE (unavailable: %v)", ValStr(want), unavail)
					}
					if !ValEq(o.Val, want) {
						return viol(ns(unavail), "wrong-value", "three-valued evaluation yields %s, TryEval returned %s (unavailable: %v)", ValStr(want), ValStr(o.Val), unavail)
					}
				} else {
					// Kleene undecided: DNE, or a value (more informative is allowed); never nil/default
					if raw.Err == nil && raw.Val == nil && !nilOps {
						return viol(ns(unavail), "nil-instead-of-dne", "TryEval returned (nil, nil) where it cannot decide (unavailable: %v)", unavail)
					}
					if o.Val == eval.DNE {
						st.Probe("dne_reached_root")
					} else {
						st.Probe("more_informative_than_kleene")
					}
				}
				return nil
			}
			// C04
			if o.Val == nil && o.Err == nil && w.Extra["nil_bind"] != "1" && !nilOps {
				return viol(ns(unavail), "nil-result", "TryEval returned (nil, nil) (unavailable: %v)", unavail)
			}
			return nil
		}

		definite := map[int]interface{}{} // split mask (bit set = unavailable) -> definite answer
		sr := NewRng(wh ^ uint64(mask))
		// sound: every completion of the unavailable variables on which Eval
		// succeeds returns val (the definite answer TryEval gave)
		sound := func(unavail []string, val interface{}, fault int) *Violation {
			doms := make([][]V, len(unavail))
			total := 1
			for i, name := range unavail {
				doms[i] = completionDomain(tyOf[name], full.Bind[name])
				total *= len(doms[i])
				if total > 1<<20 {
					total = 1 << 20
				}
			}
			capN := 48
			if w.Extra["deep"] == "1" {
				capN = 256
			}
			if len(definite) > 24 || fault >= 0 {
				capN /= 4
			}
			exhaustive := total <= capN
			tries := total
			if !exhaustive {
				tries = capN
			}
			for t := 0; t < tries; t++ {
				bind := map[string]V{}
				for k, v := range full.Bind {
					bind[k] = v
				}
				x := t
				for i, name := range unavail {
					var pick int
					if exhaustive {
						pick = x % len(doms[i])
						x /= len(doms[i])
					} else if t == 0 {
						pick = len(doms[i]) - 1 // the bound values first
					} else {
						pick = sr.Intn(len(doms[i]))
					}
					bind[name] = doms[i][pick]
				}
				e := evalFull(bind)
				if e.Panic != nil {
					continue // totality is C06's business
				}
				if e.Err != nil {
					st.Probe("completion_eval_fails")
					continue
				}
				st.Probe("completions_checked")
				if !ValEq(e.Val, val) {
					vw := ns(unavail)
					vw.Calls = append(vw.Calls, Plan{Kind: "eval", Bind: bind})
					if fault >= 0 {
						vw.Extra["fail_at"] = strconv.Itoa(fault)
						return viol(vw, "unsound-after-fetch-error", "TryEval with %v unavailable, whose seam call %d failed, still returned the definite value %s; Eval under completion %s returns %s", unavail, fault, ValStr(val), (&Plan{Bind: bind}).Canon(), ValStr(e.Val))
					}
					return viol(vw, "unsound", "TryEval with %v unavailable returned %s, but Eval under completion %s returns %s", unavail, ValStr(val), (&Plan{Bind: bind}).Canon(), ValStr(e.Val))
				}
			}
			return nil
		}
		// faultRuns: the same TryEval with each of its seam calls failed once
		// (a cached entry that expires between Cached and Get, a failing
		// operator). Whatever TryEval then returns as a definite value must
		// still be sound.
		faultRuns := func(unavail []string, clean *Outcome) *Violation {
			if isC05 || !(w.EnumFaults || w.Extra["fail_at"] != "") {
				return nil
			}
			lo, hi := 0, clean.Env.N
			if fa, ok := w.Extra["fail_at"]; ok {
				k, _ := strconv.Atoi(fa)
				lo, hi = k, k+1
			}
			for k := lo; k < hi; k++ {
				failAt = k
				_, of := tryAt(unavail, 0)
				failAt = -1
				st.Probe("tryeval_runs_with_injected_seam_failure")
				if of.Panic != nil {
					vw := ns(unavail)
					vw.Extra["fail_at"] = strconv.Itoa(k)
					return viol(vw, "panic", "TryEval panicked when its seam call %d failed: %v\n%s", k, of.Panic, of.Stack)
				}
				norm(&of)
				if isDefinite(&of, api) {
					st.Probe("definite_despite_fetch_fault")
					if v := sound(unavail, of.Val, k); v != nil {
						return v
					}
				}
			}
			return nil
		}

		if splitMode {
			n := len(vars)
			nsplits := 1 << uint(n)
			if n > 8 {
				nsplits = 256
			}
			only := -1
			if !w.EnumSplits {
				only = 0
				for _, name := range strings.Split(w.Extra["unavail"], ",") {
					for i, v := range vars {
						if v == name {
							only |= 1 << uint(i)
						}
					}
				}
				nsplits = 1
			}
			for s := 0; s < nsplits; s++ {
				split := s
				if only >= 0 {
					split = only
				} else if n > 8 {
					split = int(sr.U64() & (1<<uint(n) - 1))
					if s == 0 {
						split = 0
					}
				}
				var unavail []string
				for i, v := range vars {
					if split&(1<<uint(i)) != 0 {
						unavail = append(unavail, v)
					}
				}
				p, o := tryAt(unavail, 0)
				if v := judge(p, &o, unavail); v != nil {
					return v
				}
				if isC05 {
					continue
				}
				if v := faultRuns(unavail, &o); v != nil {
					return v
				}
				if split == 0 {
					// everything available: TryEval and Eval agree
					e := evalFull(full.Bind)
					if e.Panic != nil {
						return viol(ns(nil), "panic", "Eval panicked: %v\n%s", e.Panic, e.Stack)
					}
					want := e
					if api == "tryevalbool" && e.Err == nil {
						if _, ok := e.Val.(bool); !ok {
							want.Err = fmt.Errorf("non-boolean result")
						}
					}
					switch {
					case o.Val == eval.DNE && o.Err == nil:
						return viol(ns(unavail), "all-available-dne", "all variables available, TryEval reports DNE; Eval: %s %s", e.Class(), ValStr(e.Val))
					case (o.Err == nil) != (want.Err == nil):
						return viol(ns(unavail), "all-available-disagree", "all variables available: TryEval %s %s (err %v), Eval %s %s (err %v)", o.Class(), ValStr(o.Val), o.Err, e.Class(), ValStr(e.Val), e.Err)
					case o.Err == nil && !ValEq(o.Val, e.Val):
						return viol(ns(unavail), "all-available-value", "all variables available: TryEval %s, Eval %s", ValStr(o.Val), ValStr(e.Val))
					}
					st.Probe("all_available_agree")
				}
				if !isDefinite(&o, api) {
					if o.Val == eval.DNE {
						st.Probe("dne_reached_root")
					}
					continue
				}
				definite[split] = o.Val
				if len(unavail) == 0 {
					continue
				}
				st.Probe("definite_with_unavailable")
				if control && n >= 2 {
					st.Nontrivial(wh)
				}
				if v := sound(unavail, o.Val, -1); v != nil {
					return v
				}
			}
			// The library's own slice-backed fetcher is truthful in one way: a key
			// beyond the slice (a variable registered after the context was built)
			// is not cached. Contexts built before the k variables with the largest
			// keys were registered make exactly those unavailable.
			if w.Extra["slice_fetcher"] == "1" && !w.Cfg.Undefined {
				eligible := len(w.Cfg.Vars) >= 2
				for _, v := range w.Cfg.Vars {
					if !v.Reg || v.Key < 0 || v.Key > 255 {
						eligible = false
					}
				}
				for _, v := range full.Bind {
					switch v.T {
					case "b", "i", "s", "il", "sl", "is", "ss":
					default:
						// a raw Go type: the library's fetcher normalises it on
						// construction, the stub (used for the Eval side) does not
						eligible = false
					}
				}
				if eligible {
					byKey := append([]VarSpec(nil), w.Cfg.Vars...)
					sort.Slice(byKey, func(i, j int) bool { return byKey[i].Key < byKey[j].Key })
					for k := 1; k < len(byKey); k++ {
						early := w.Cfg
						early.Vars = byKey[:len(byKey)-k]
						var unavail []string
						late := map[string]bool{}
						for _, v := range byKey[len(byKey)-k:] {
							late[v.Name] = true
						}
						for _, v := range vars {
							if late[v] {
								unavail = append(unavail, v)
							}
						}
						p := full.Clone()
						p.Kind = api
						p.Unavail = unavail
						vals := map[string]interface{}{}
						for n, v := range p.Bind {
							if !late[n] {
								vals[n] = v.Go()
							}
						}
						ehost := &OpHost{Specs: ops}
						earlyCC := BuildConfig(&early, ehost, mask, true)
						ctx := eval.NewCtxFromVars(earlyCC, vals)
						if _, isSlice := ctx.VariableFetcher.(eval.SliceVarFetcher); !isSlice {
							continue
						}
						env := NewEnv(ops, &p)
						c.Host.CompileEnv = env
						o := c.RunCtx(ctx, env, api)
						c.Host.CompileEnv = nil
						st.Evals++
						st.Probe("real_slice_fetcher_probes")
						if v := judge(&p, &o, unavail); v != nil {
							v.Msg = "[context built by NewCtxFromVars before the unavailable variables were registered: slice-backed fetcher] " + v.Msg
							v.World = mw
							return v
						}
						if !isC05 && isDefinite(&o, api) && len(unavail) > 0 {
							if v := sound(unavail, o.Val, -1); v != nil {
								return v
							}
						}
					}
				}
			}
			if !isC05 {
				// monotonicity: making one more variable available never turns a
				// definite answer into a different value
				for s, v := range definite {
					for i := 0; i < n; i++ {
						if s&(1<<uint(i)) == 0 {
							continue
						}
						if v2, ok := definite[s&^(1<<uint(i))]; ok && !ValEq(v, v2) {
							return viol(mw, "non-monotone", "TryEval answered %s with split %b unavailable and %s after %s became available", ValStr(v), s, ValStr(v2), vars[i])
						}
					}
				}
			}
			continue
		}

		// ---- timeline (discrete-event) ----
		nreq := 1
		if w.Extra["two_requests"] == "1" && len(w.Calls) >= 2 {
			nreq = 2 // two requests, one after the other, each with its own binding and context
		}
		for req := 0; req < nreq; req++ {
			full = &w.Calls[req]
			useSet := w.Extra["real_fetcher"] == "1" && w.Cfg.Undefined
			if useSet {
				realCtx = eval.NewCtxFromVars(c.Conf, map[string]interface{}{})
			}
			avail := map[string]bool{}
			clock := int64(0)
			truth := evalFull(full.Bind)
			usesClock := false
			w.Prog.Walk(func(x *Node) {
				if x.K == KOp && ops[x.Name] != nil && ops[x.Name].Kind == "now" {
					usesClock = true
				}
			})
			var lastDef interface{}
			haveDef := false
			growing := true // availability has only grown since lastDef
			for si, s := range w.Steps {
				var lat int64
				fmt.Sscan(s.Arg, &lat)
				clock += lat
				st.Ticks += lat
				st.Steps++
				switch s.Op {
				case "warm":
					if useSet && !avail[s.Name] {
						if v, ok := full.Bind[s.Name]; ok {
							realCtx.Set(eval.VariableKey(w.Cfg.KeyOf(s.Name)), s.Name, v.Go())
							st.Faults["set"]++
						}
					}
					avail[s.Name] = true
					st.Faults["warm"]++
				case "evict":
					if useSet {
						break // the map fetcher has no way to forget a value
					}
					if avail[s.Name] {
						delete(avail, s.Name)
						growing = false
						st.Faults["evict"]++
					}
				case "fetch_fail":
					// the fetch failed; the prefetcher retries later: nothing arrives now
					st.Faults["fetch_retry"]++
				case "probe":
					var unavail []string
					for _, v := range vars {
						if !avail[v] {
							unavail = append(unavail, v)
						}
					}
					p, o := tryAt(unavail, clock)
					if usesClock {
						// a clock-reading operator: the truth is the value at this instant
						evalClock = clock
						truth = evalFull(full.Bind)
						haveDef = false
					}
					if v := judge(p, &o, unavail); v != nil {
						v.Msg = fmt.Sprintf("timeline step %d t=%d: %s", si, clock, v.Msg)
						return v
					}
					st.T(" t=%d probe unavail=%v -> %s %s", clock, unavail, o.Class(), ValStr(o.Val))
					if isC05 {
						continue
					}
					if isDefinite(&o, api) {
						if len(unavail) > 0 {
							st.Probe("definite_with_unavailable")
							if control && len(vars) >= 2 {
								st.Nontrivial(wh)
							}
						}
						if truth.Err == nil && truth.Panic == nil && !ValEq(o.Val, truth.Val) {
							return viol(ns(unavail), "unsound", "timeline step %d t=%d: TryEval with %v unavailable returned %s, Eval on the true values returns %s", si, clock, unavail, ValStr(o.Val), ValStr(truth.Val))
						}
						if haveDef && growing && !ValEq(o.Val, lastDef) {
							return viol(mw, "non-monotone", "timeline step %d t=%d: definite answer changed from %s to %s while availability only grew", si, clock, ValStr(lastDef), ValStr(o.Val))
						}
						lastDef, haveDef, growing = o.Val, true, true
					}
					if len(unavail) == 0 && si == len(w.Steps)-1 {
						// bounded liveness: once everything has arrived the next probe
						// is definite-or-error and agrees with Eval
						if o.Val == eval.DNE && o.Err == nil {
							return viol(ns(unavail), "all-available-dne", "timeline end: everything arrived, TryEval still reports DNE")
						}
						if truth.Panic == nil && ((o.Err == nil) != (truth.Err == nil) && api == "tryeval") {
							return viol(ns(unavail), "all-available-disagree", "timeline end: TryEval %s %s (err %v), Eval %s %s (err %v)", o.Class(), ValStr(o.Val), o.Err, truth.Class(), ValStr(truth.Val), truth.Err)
						}
						st.Probe("timeline_final_probe_ok")
					}
				}
			}
			st.Probe("timelines")
			realCtx = nil
		} // requests
		full = &w.Calls[0]
	}
	st.Sample(w.Canon())
	return nil
}
