package sim

import (
	"context"
	"errors"
	"fmt"
	"runtime/debug"
	"strings"

	"github.com/onheap/eval"
)

// Outcome is what one call into the library did, as seen from outside.
type Outcome struct {
	Val    interface{}
	Err    error
	Panic  interface{} // non-nil: the call panicked (value recovered)
	Stack  string
	Abort  bool // the panic was our own injected abort fault
	Env    *Env
	Events []eval.Event
	Text   string // Dump / DumpTable result
}

func (o *Outcome) Class() string {
	switch {
	case o.Abort:
		return "abort"
	case o.Panic != nil:
		return "panic"
	case o.Err != nil:
		var se *SimErr
		if errors.As(o.Err, &se) {
			return "simerr:" + se.Kind
		}
		return "builtin-error"
	case o.Val == eval.DNE:
		return "dne"
	}
	return "value"
}

// Compiled is a compiled program together with what the harness needs to
// drive it.
type Compiled struct {
	Expr *eval.Expr
	Conf *eval.Config
	Host *OpHost
	Src  string
	Mask int
	Ch   chan eval.Event
	// NoDrain: the caller consumes the events itself (multi-task engines)
	NoDrain bool
	// KeyOf: the configuration's name -> key assignment, handed to every Env
	KeyOf func(name string) int16
	// Fetcher: how the caller built its fetcher type (CfgSpec.Fetcher)
	Fetcher string
	// constAggr: printed form of every list/set constant as it was configured
	constAggr map[string]string
}

func isAggregate(t string) bool {
	switch t {
	case "il", "sl", "is", "ss", "[]int", "[]int32":
		return true
	}
	return false
}

func mutatingOps(ops map[string]*OpSpec) bool {
	for _, o := range ops {
		if o.Mutates {
			return true
		}
	}
	return false
}

// CompileWorld compiles prog under the world's configuration with the given
// option subset. route: true = options set in the Config, false = ";;;;"
// directive line in the source. A compile-time Env receives the user-operator
// calls Compile makes while folding.
func CompileSpec(cfg *CfgSpec, prog *Node, mask int, viaDirective bool, compileEnv *Env) (c *Compiled, err error, pan interface{}) {
	host := &OpHost{Specs: SpecMap(cfg.Ops), CompileEnv: compileEnv}
	cc := BuildConfig(cfg, host, mask, !viaDirective)
	src := prog.Src()
	if viaDirective {
		src = Directive(mask, cfg.DirStyle) + src
	}
	c = &Compiled{Conf: cc, Host: host, Src: src, Mask: mask, KeyOf: cfg.KeyOf, Fetcher: cfg.Fetcher}
	func() {
		defer func() {
			if r := recover(); r != nil {
				pan = fmt.Sprintf("%v\n%s", r, debug.Stack())
			}
		}()
		c.Expr, err = eval.Compile(cc, src)
	}()
	host.CompileEnv = nil
	if c.Expr != nil && !mutatingOps(host.Specs) {
		for name, v := range cfg.Consts {
			if isAggregate(v.T) {
				if c.constAggr == nil {
					c.constAggr = map[string]string{}
				}
				c.constAggr[name] = ValStr(v.Go())
			}
		}
	}
	if c.Expr != nil && cfg.Event != "" {
		// The program is fixed by Compile: what Dump/DumpTable show must not
		// depend on whether the event channel has been attached yet, nor on
		// which rendering was asked for first (checked on a fifth of the
		// compilations; the choice is a pure function of the source).
		var pre [3]string
		probe := pan == nil && len(src)%5 == 0
		render := func() (t [3]string) {
			defer func() {
				if r := recover(); r != nil {
					pan = fmt.Sprintf("Dump/DumpTable panicked: %v\n%s", r, debug.Stack())
				}
			}()
			if len(src)%2 == 0 {
				t[1] = eval.DumpTable(c.Expr, true)
				t[0] = eval.DumpTable(c.Expr, false)
			} else {
				t[0] = eval.DumpTable(c.Expr, false)
				t[1] = eval.DumpTable(c.Expr, true)
			}
			t[2] = eval.Dump(c.Expr)
			return
		}
		if probe {
			pre = render()
		}
		c.Ch = inlineCh
		c.Expr.EventChan = c.Ch
		if probe && pan == nil {
			post := render()
			for i, what := range []string{"DumpTable(expr, false)", "DumpTable(expr, true)", "Dump(expr)"} {
				if pan == nil && pre[i] != post[i] {
					pan = fmt.Sprintf("%s differs before and after the event channel is attached (the program is fixed by Compile):\nbefore:\n%s\nafter:\n%s", what, pre[i], post[i])
				}
			}
		}
	}
	return
}

// cancelledCtx: a request context that is already done. Ctx.Ctx is carried for
// the user's operators; evaluation and event reporting must not depend on it.
var cancelledCtx = func() context.Context {
	c, cancel := context.WithCancel(context.Background())
	cancel()
	return c
}()

// inlineCh is the event channel of every program compiled for the INLINE
// engine: one evaluation runs at a time and the channel is drained after each
// call, so one amply sized channel serves them all.
var inlineCh = make(chan eval.Event, 1<<15)

func drain(ch chan eval.Event) []eval.Event {
	var evs []eval.Event
	for {
		select {
		case ev := <-ch:
			evs = append(evs, ev)
		default:
			return evs
		}
	}
}

// Run performs one call into the library against a fresh Env of plan p.
func (c *Compiled) Run(ops map[string]*OpSpec, p *Plan, phase string) (o Outcome) {
	env := NewEnv(ops, p)
	env.Phase = phase
	return c.RunEnv(env, p.Kind)
}

func (c *Compiled) RunEnv(env *Env, kind string) (o Outcome) {
	var names []string
	if c.Fetcher != "" && env.Plan != nil {
		names = sortedKeys(env.Plan.Bind)
	}
	return c.RunCtx(&eval.Ctx{VariableFetcher: WrapFetcher(c.Fetcher, &SimFetcher{E: env}, names)}, env, kind)
}

// RunCtx performs one call with a caller-owned Ctx (a request's Ctx that
// lives across several calls); its fetcher must already serve env.
func (c *Compiled) RunCtx(ctx *eval.Ctx, env *Env, kind string) (o Outcome) {
	o.Env = env
	if env.Plan != nil && env.Plan.CtxDone {
		ctx.Ctx = cancelledCtx
	}
	if env.KeyOf == nil {
		env.KeyOf = c.KeyOf
	}
	defer func() {
		// the fetcher was addressed with a key/name pair that does not belong
		// together: surfaced like a panic so that every property reports it
		if env.KeyMismatch != "" && o.Panic == nil {
			o.Panic = "the engine addressed the fetcher inconsistently: " + env.KeyMismatch
			o.Stack = ""
		}
		// values the caller owns (lists and sets bound to variables or stored in
		// the ConstantMap) are the caller's: reading them must not change them
		if o.Panic == nil && env.Plan != nil && !mutatingOps(env.Ops) {
			for name, v := range env.Plan.Bind {
				if isAggregate(v.T) && !ValEq(env.bind[name], v.Go()) {
					o.Panic = fmt.Sprintf("the library changed the caller's value bound to %s: it was %s, after the call it is %s", name, ValStr(v.Go()), ValStr(env.bind[name]))
					o.Stack = ""
				}
			}
			for name, was := range c.constAggr {
				if now := ValStr(c.Conf.ConstantMap[name]); now != was && o.Panic == nil {
					o.Panic = fmt.Sprintf("the library changed the caller's ConstantMap entry %s: it was %s, after the call it is %s", name, was, now)
					o.Stack = ""
				}
			}
		}
	}()
	defer func() {
		if r := recover(); r != nil {
			if _, ok := r.(AbortPanic); ok {
				o.Abort = true
			}
			o.Panic = r
			o.Stack = string(debug.Stack())
		}
		if c.Ch != nil && !c.NoDrain {
			o.Events = drain(c.Ch)
		}
	}()
	if env.Plan != nil && env.Plan.NilCtx {
		// a program that reads no variable may be evaluated without a Ctx; user
		// operators find their Env through the host for the duration
		ctx = nil
		prev := c.Host.CompileEnv
		c.Host.CompileEnv = env
		defer func() { c.Host.CompileEnv = prev }()
	}
	if env.Plan != nil && env.Plan.RawErr {
		rawErrArmed = true
		defer func() { rawErrArmed = false }()
	}
	switch kind {
	case "", "eval":
		o.Val, o.Err = c.Expr.Eval(ctx)
	case "tryeval":
		o.Val, o.Err = c.Expr.TryEval(ctx)
	case "evalbool":
		o.Val, o.Err = c.Expr.EvalBool(ctx)
	case "tryevalbool":
		o.Val, o.Err = c.Expr.TryEvalBool(ctx)
	case "dump":
		o.Text = eval.Dump(c.Expr)
	case "dumptable":
		o.Text = eval.DumpTable(c.Expr, false)
	case "dumptable_skip":
		o.Text = eval.DumpTable(c.Expr, true)
	default:
		panic("sim: unknown call kind " + kind)
	}
	return
}

// DumpTree returns the optimized tree of a compiled program as Dump shows it.
func (c *Compiled) DumpTree() (*Node, string, error) {
	var text string
	var pan interface{}
	func() {
		defer func() {
			if r := recover(); r != nil {
				pan = r
			}
		}()
		text = eval.Dump(c.Expr)
	}()
	if pan != nil {
		return nil, "", fmt.Errorf("Dump panicked: %v", pan)
	}
	n, err := ReadDump(text)
	return n, text, err
}

// NodeCount reads the program size from DumpTable's public header.
func (c *Compiled) NodeCount() int {
	t := eval.DumpTable(c.Expr, false)
	var n int
	if i := strings.Index(t, "node  size:"); i >= 0 {
		fmt.Sscanf(strings.TrimSpace(t[i+len("node  size:"):]), "%d", &n)
	}
	return n
}

// StackSize reads the operand stack size from DumpTable's public header.
func (c *Compiled) StackSize() int {
	t := eval.DumpTable(c.Expr, false)
	var n int
	if i := strings.Index(t, "stack size:"); i >= 0 {
		fmt.Sscanf(strings.TrimSpace(t[i+len("stack size:"):]), "%d", &n)
	}
	return n
}

// sentinelsOtherThan reports whether err's chain contains a seam sentinel
// other than want.
func chainHasOtherSentinel(err error, want *SimErr) *SimErr {
	for e := err; e != nil; e = errors.Unwrap(e) {
		if se, ok := e.(*SimErr); ok && se != want {
			return se
		}
	}
	return nil
}
