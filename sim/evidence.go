package sim

import (
	"encoding/json"
	"fmt"
	"os"
	"path/filepath"
)

// propMeta is the per-property text that goes into evidence: how cases are
// generated and counted, what is assumed, which components ran real code.
type propMeta struct {
	Rule        string
	Assumptions []string
	Engines     []string
	FaultKinds  []string // fault kinds this property's simulation can inject
	Clock       bool     // a simulated clock exists for this property
}

var meta = map[string]propMeta{}

var realStub = map[string]string{
	"lexer/parser/directives (parser.go)":                   "real, through eval.Compile",
	"optimizer, size check, program builder, event nodes":   "real, through eval.Compile",
	"evaluator Eval/TryEval/EvalBool/TryEvalBool/eval.Eval": "real",
	"built-in operator table":                               "real",
	"Dump/DumpTable":                                        "real (Dump text is re-read by the oracle's own reader)",
	"Config API (NewConfig, CopyConfig, ExtendConf, RegVarAndOp, GetOrRegisterKey, RegisterOperator)": "real",
	"NewCtxFromVars, SliceVarFetcher, MapVarFetcher":                                                  "real where the property is about them (C11, C01 one-shot), otherwise replaced",
	"remote variable store + per-request cache (VariableFetcher)":                                     "STUB: SimFetcher (values, availability, failures, call log)",
	"user operators":                   "STUB: SimOps (pure typed hash, failing, clock-reading, stateless-declared)",
	"event consumer on Expr.EventChan": "STUB: the simulator's scheduler over a real Go channel",
	"caller goroutines":                "real goroutines, released one at a time by the simulator",
	"clock":                            "STUB: logical clock (the library itself never reads a clock)",
}

func writeEvidence(prop, tier string, base uint64, cfg tierCfg, workers int, agg *Aggregate, det DetReport, violations int, known map[string]int, wall float64) {
	m := meta[prop]
	if m.Assumptions == nil {
		m.Assumptions = []string{"sampling: a clean batch is evidence, not proof"}
	}
	samples := agg.Stats.Samples
	if len(samples) == 0 {
		samples = []interface{}{"no sample recorded"}
	}
	cov := map[string]interface{}{
		"evaluations":                       agg.Stats.Evals,
		"distinct_nontrivial":               len(agg.sets[1]),
		"rule":                              m.Rule,
		"samples":                           samples,
		"exhaustive":                        false,
		"simulated_runs":                    agg.Stats.Worlds,
		"distinct_worlds":                   len(agg.sets[0]),
		"distinct_paths":                    len(agg.sets[2]),
		"distinct_schedules":                len(agg.sets[3]),
		"comparisons_skipped_out_of_domain": agg.Stats.Skipped,
		"logical_steps":                     agg.Stats.Steps,
		"fault_kinds_fired":                 agg.Stats.Faults,
		"fault_kinds_available":             m.FaultKinds,
		"fault_kinds_not_applicable_to_this_code_base": []string{"message loss/duplication/reordering", "partitions", "disk errors, torn/lost writes, full disk", "clock skew between nodes", "failing allocations"},
		"reach_probes":          agg.Stats.Probes,
		"run_budget":            cfg.Runs,
		"run_budget_completed":  agg.Completed,
		"workers":               workers,
		"runs_per_hour":         rate(agg.Stats.Worlds, wall),
		"seeds_per_hour":        rate(agg.Stats.Worlds, wall),
		"determinism_self_test": det,
		"engines":               m.Engines,
		"components":            realStub,
		"known_findings_hit":    known,
	}
	if m.Clock {
		cov["simulated_clock_ticks"] = agg.Stats.Ticks
	} else {
		cov["simulated_time"] = "none: neither the library nor this property's environment has a clock; coverage is counted in logical steps"
	}
	for k, v := range agg.Extra {
		cov[k] = v
	}
	ev := map[string]interface{}{
		"property_id": prop,
		"tier":        tier,
		"seed":        int64(base),
		"level":       "exploration",
		"coverage":    cov,
		"assumptions": m.Assumptions,
		"wall_s":      wall,
		"violations":  violations,
	}
	b, err := json.MarshalIndent(ev, "", " ")
	if err != nil {
		fmt.Println("evidence: ", err)
		return
	}
	dir := filepath.Join(outDir(), "evidence")
	os.MkdirAll(dir, 0o755)
	if err := os.WriteFile(filepath.Join(dir, prop+".json"), b, 0o644); err != nil {
		fmt.Println("evidence: ", err)
	}
}

func rate(n int64, wall float64) int64 {
	if wall <= 0 {
		return 0
	}
	return int64(float64(n) / wall * 3600)
}

// outDir is /verif, or the scratch directory of a development run against a
// copy of the library (VERIF_REPO), so that such runs never touch the evidence
// and replay files of the registered checks.
func outDir() string {
	if d := os.Getenv("VERIF_OUT_DIR"); d != "" {
		return d
	}
	return verifDir
}
