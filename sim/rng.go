package sim

import (
	"math"
	"sort"
	"strconv"
)

func sortStrings(s []string) { sort.Strings(s) }

// Rng is the one source of randomness of a run: splitmix64. Everything a run
// decides is drawn from one Rng seeded with the run's seed.
type Rng struct{ s uint64 }

func NewRng(seed uint64) *Rng { return &Rng{s: seed} }

func (r *Rng) U64() uint64 {
	r.s += 0x9e3779b97f4a7c15
	z := r.s
	z = (z ^ (z >> 30)) * 0xbf58476d1ce4e5b9
	z = (z ^ (z >> 27)) * 0x94d049bb133111eb
	return z ^ (z >> 31)
}

func (r *Rng) Intn(n int) int {
	if n <= 0 {
		return 0
	}
	return int(r.U64() % uint64(n))
}

// Range returns an integer in [lo, hi].
func (r *Rng) Range(lo, hi int) int { return lo + r.Intn(hi-lo+1) }

// P returns true with probability p.
func (r *Rng) P(p float64) bool {
	return float64(r.U64()>>11)/float64(1<<53) < p
}

func (r *Rng) Perm(n int) []int {
	p := make([]int, n)
	for i := range p {
		p[i] = i
	}
	for i := n - 1; i > 0; i-- {
		j := r.Intn(i + 1)
		p[i], p[j] = p[j], p[i]
	}
	return p
}

func PickS(r *Rng, xs []string) string { return xs[r.Intn(len(xs))] }

// Mix64 derives the seed of run i of property p from the base seed.
func Mix64(base uint64, prop string, i uint64) uint64 {
	h := base ^ 0x51ed270b0f5d3b1f
	for _, c := range []byte(prop) {
		h = (h ^ uint64(c)) * 0x100000001b3
	}
	r := Rng{s: h + i*0x9e3779b97f4a7c15}
	r.U64()
	return r.U64()
}

func parseCost(s string) float64 {
	f, err := strconv.ParseFloat(s, 64)
	if err != nil {
		return math.NaN()
	}
	return f
}

// hash64 is FNV-1a over a string.
func hash64(s string) uint64 {
	h := uint64(0xcbf29ce484222325)
	for i := 0; i < len(s); i++ {
		h = (h ^ uint64(s[i])) * 0x100000001b3
	}
	return h
}
