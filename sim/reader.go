package sim

import (
	"fmt"
	"strconv"
	"unicode"
)

// ReadDump parses the text produced by eval.Dump back into a tree. It is an
// independent reader for exactly the syntax Dump emits: parenthesised forms,
// Go-quoted strings (strconv.Quote), bare integers, true/false, identifiers,
// "(1 2 3)" / "("a" "b")" / "()" lists and zero-argument calls "(now)".
// Constants appear in Dump by value, so every bare identifier other than
// true/false is a variable.
func ReadDump(text string) (*Node, error) {
	r := &reader{s: []rune(text)}
	n, err := r.expr()
	if err != nil {
		return nil, err
	}
	r.ws()
	if r.i != len(r.s) {
		return nil, fmt.Errorf("reader: trailing text at %d in %q", r.i, text)
	}
	return n, nil
}

type reader struct {
	s []rune
	i int
}

func (r *reader) ws() {
	for r.i < len(r.s) && unicode.IsSpace(r.s[r.i]) {
		r.i++
	}
}

type rtok struct {
	kind byte // '(' ')' 's'tring 'a'tom 0=eof
	text string
}

func (r *reader) next() (rtok, error) {
	r.ws()
	if r.i >= len(r.s) {
		return rtok{}, nil
	}
	c := r.s[r.i]
	switch c {
	case '(':
		r.i++
		return rtok{kind: '('}, nil
	case ')':
		r.i++
		return rtok{kind: ')'}, nil
	case '"':
		start := r.i
		r.i++
		for r.i < len(r.s) {
			if r.s[r.i] == '\\' {
				r.i += 2
				continue
			}
			if r.s[r.i] == '"' {
				r.i++
				q := string(r.s[start:r.i])
				u, err := strconv.Unquote(q)
				if err != nil {
					return rtok{}, fmt.Errorf("reader: bad quoted string %s: %v", q, err)
				}
				return rtok{kind: 's', text: u}, nil
			}
			r.i++
		}
		return rtok{}, fmt.Errorf("reader: unterminated string")
	}
	start := r.i
	for r.i < len(r.s) && !unicode.IsSpace(r.s[r.i]) && r.s[r.i] != '(' && r.s[r.i] != ')' && r.s[r.i] != '"' {
		r.i++
	}
	return rtok{kind: 'a', text: string(r.s[start:r.i])}, nil
}

func (r *reader) peek() (rtok, error) {
	save := r.i
	t, err := r.next()
	r.i = save
	return t, err
}

func atomNode(t rtok) *Node {
	if t.kind == 's' {
		return Lit(VS(t.text))
	}
	switch t.text {
	case "true":
		return Lit(VB(true))
	case "false":
		return Lit(VB(false))
	}
	if v, err := strconv.ParseInt(t.text, 10, 64); err == nil {
		return Lit(VI(v))
	}
	return Var(t.text)
}

func (r *reader) expr() (*Node, error) {
	t, err := r.next()
	if err != nil {
		return nil, err
	}
	switch t.kind {
	case 0:
		return nil, fmt.Errorf("reader: unexpected end of text")
	case ')':
		return nil, fmt.Errorf("reader: unexpected )")
	case 's', 'a':
		return atomNode(t), nil
	}
	// '(' : list literal or call
	head, err := r.peek()
	if err != nil {
		return nil, err
	}
	if head.kind == ')' {
		r.next()
		return Lit(VSL(nil)), nil // the empty list literal is an empty string list
	}
	isInt := false
	if head.kind == 'a' {
		_, e := strconv.ParseInt(head.text, 10, 64)
		isInt = e == nil
	}
	if head.kind == 's' || isInt {
		var il []int64
		var sl []string
		for {
			t, err := r.next()
			if err != nil {
				return nil, err
			}
			if t.kind == ')' {
				break
			}
			if head.kind == 's' {
				if t.kind != 's' {
					return nil, fmt.Errorf("reader: mixed list")
				}
				sl = append(sl, t.text)
			} else {
				v, e := strconv.ParseInt(t.text, 10, 64)
				if t.kind != 'a' || e != nil {
					return nil, fmt.Errorf("reader: mixed list")
				}
				il = append(il, v)
			}
		}
		if head.kind == 's' {
			return Lit(VSL(sl)), nil
		}
		return Lit(VIL(il)), nil
	}
	if head.kind != 'a' {
		return nil, fmt.Errorf("reader: form does not start with an operator name")
	}
	r.next()
	var args []*Node
	for {
		p, err := r.peek()
		if err != nil {
			return nil, err
		}
		if p.kind == 0 {
			return nil, fmt.Errorf("reader: unclosed form")
		}
		if p.kind == ')' {
			r.next()
			break
		}
		a, err := r.expr()
		if err != nil {
			return nil, err
		}
		args = append(args, a)
	}
	if head.text == "if" {
		if len(args) != 3 {
			return nil, fmt.Errorf("reader: if with %d operands", len(args))
		}
		return If(args[0], args[1], args[2]), nil
	}
	return Op(head.text, args...), nil
}
