package sim

import (
	"fmt"
	"math"
	"runtime/debug"
	"sort"
	"strings"

	"github.com/onheap/eval"
)

// C11 — Variables read the value bound to their name under any key layout.
//
// Simulated system: an API-call history over one mutable Config —
// registrations in every form and order, copies, compiles, context
// construction with the REAL fetchers (NewCtxFromVars) and evaluations — with
// a reference key registry (name -> key) checked after every step and by-name
// normalised values as the evaluation oracle.
type propC11 struct{}

func init() {
	Register(propC11{})
	meta["C11"] = propMeta{
		Rule: "A case is one history over one Config: explicit key assignments anywhere in the int16 range (layouts on both sides of each fetcher boundary), GetOrRegisterKey calls in a PRNG-chosen order, RegVarAndOp (Go-map order, recorded in the trace), CopyConfig/ExtendConf, undefined-variable mode, Compile of 1-3 programs, NewCtxFromVars with bindings in every Go type the statement lists, Eval and one-shot eval.Eval, in any order (in particular compile, register more, build context, evaluate). After every step the registry invariants are checked (injective, stable, idempotent); every evaluation must return the by-name normalised reference value. evaluations = calls into the library. non-trivial = distinct histories with at least two variables registered by at least two different mechanisms and at least one evaluation.",
		Assumptions: []string{
			"bindings bind every referenced variable (the statement's quantifier)",
			"the context is built from the configuration as it stands at evaluation time",
			"Go map iteration order inside RegVarAndOp cannot be seeded; the resulting key map is recorded in the trace, and the same order space is explored controllably through explicit GetOrRegisterKey sequences",
			"sampling: a clean batch is evidence, not proof",
		},
		Engines:    []string{"INLINE (API histories, real fetchers wrapped by a recorder)"},
		FaultKinds: []string{"map_order (recorded, not injected)"},
	}
}

func (propC11) ID() string { return "C11" }

// rawValue draws a binding in one of the Go types the statement lists for ty.
func rawValue(g *Gen, ty Ty) V {
	r := g.R
	switch ty {
	case TInt:
		small := int64(r.Range(-100, 100))
		switch r.Intn(11) {
		case 0:
			return VI(g.Int())
		case 1:
			return V{T: "int", I: int64(int(g.Int()))}
		case 2:
			return V{T: "int8", I: int64(int8(small))}
		case 3:
			return V{T: "int16", I: int64(int16(r.Range(-30000, 30000)))}
		case 4:
			return V{T: "int32", I: int64(int32(r.U64()))}
		case 5:
			return V{T: "uint8", U: uint64(uint8(r.U64()))}
		case 6:
			return V{T: "uint16", U: uint64(uint16(r.U64()))}
		case 7:
			return V{T: "uint32", U: uint64(uint32(r.U64()))}
		case 8:
			return V{T: "uint64", U: r.U64() >> 1}
		case 9:
			// instants across the whole range time.Time supports: around and
			// before 1970 (with sub-second parts), far past and future, the zero Time
			sec := int64(r.Range(-1000, 2000000000))
			switch r.Intn(5) {
			case 0:
				sec = int64(r.Range(-100000, 100))
			case 1:
				sec = int64(r.U64()%400000000000) - 100000000000 // years ~ -1200 .. 11400
			case 2:
				sec = -62135596800 // time.Time{}
			}
			ns := uint64(r.Range(0, 999999999))
			if r.P(0.3) {
				ns = 0
			}
			return V{T: "time", I: sec, U: ns}
		default:
			return V{T: "dur", I: int64(r.Range(-5000, 500000)) * 1000000 * int64(r.Range(1, 1000))}
		}
	case TIntList:
		n := r.Range(0, 5)
		l := make([]int64, n)
		for i := range l {
			l[i] = int64(int32(r.Range(-1000, 1000)))
		}
		switch r.Intn(3) {
		case 0:
			return V{T: "[]int", IL: l}
		case 1:
			return V{T: "[]int32", IL: l}
		}
		return VIL(l)
	}
	return g.Value(ty)
}

// infixPlainNames: pooled variable names that are plain identifiers in infix
// notation too (no dot, no keyword, ASCII).
var infixPlainNames = map[string]bool{"a": true, "b": true, "c": true, "d": true, "x1": true, "y_2": true, "is_ok": true, "v": true, "locale": true, "n0": true}

func (propC11) Gen(r *Rng, tier string) *World {
	k := DrawKnobs(r)
	k.NVars = r.Range(2, 8)
	k.NOps, k.FailOp, k.NowOp = 0, false, false
	k.PUnbound = 0
	k.Sets = r.P(0.2)
	k.UndefMode = 0
	k.NoSetConst = true
	g := NewGen(r, k)
	w := &World{Prop: "C11"}
	w.Cfg = g.C
	undefined := r.P(0.2)
	// programs: one probe per variable plus generated programs over them
	for _, v := range w.Cfg.Vars {
		if _, isConst := w.Cfg.Consts[v.Name]; isConst {
			continue // a constant of the same name wins: the name never means the variable
		}
		if r.P(0.5) {
			w.Progs = append(w.Progs, If(Lit(VB(true)), Var(v.Name), Var(v.Name)))
		}
	}
	np := r.Range(1, 3)
	for i := 0; i < np; i++ {
		w.Progs = append(w.Progs, g.Program())
	}
	// explicit keys for a random subset, as the generator's layout drew them
	explicit := map[string]int16{}
	for _, v := range w.Cfg.Vars {
		if r.P(0.4) {
			explicit[v.Name] = v.Key
		}
	}
	for i := range w.Cfg.Vars {
		w.Cfg.Vars[i].Reg = false // registration happens through the history
	}
	if len(explicit) > 0 && r.P(0.7) {
		if r.P(0.2) {
			// an alias: the caller gives a second name the key of an existing one
			// (uid / user_id). Programs never mention the alias and a binding that
			// holds it gives it its twin's value, so by-name reading is unaffected;
			// what must still hold is that GetOrRegisterKey never hands a key in use
			// to a further name.
			twin := sortedKeys16(explicit)[r.Intn(len(explicit))]
			w.Extra = map[string]string{"alias": "al_" + twin, "twin": twin}
			explicit["al_"+twin] = explicit[twin]
		}
		w.Steps = append(w.Steps, Step{Op: "setkeys", Keys: explicit})
	}
	if undefined {
		w.Steps = append(w.Steps, Step{Op: "undefined"})
	}
	registered := map[string]bool{}
	for n := range explicit {
		if len(w.Steps) > 0 && w.Steps[0].Op == "setkeys" {
			registered[n] = true
		}
	}
	regSome := func(names []string) {
		if len(names) == 0 {
			return
		}
		switch r.Intn(3) {
		case 0: // one RegVarAndOp call (runtime picks the order)
			w.Steps = append(w.Steps, Step{Op: "regvarop", Names: names})
		default: // explicit GetOrRegisterKey calls in a PRNG-chosen order
			for _, i := range r.Perm(len(names)) {
				w.Steps = append(w.Steps, Step{Op: "regkey", Name: names[i]})
			}
		}
		for _, n := range names {
			registered[n] = true
		}
	}
	compiled := map[int]bool{}
	order := r.Perm(len(w.Progs))
	for _, pi := range order {
		// a few unrelated registrations first
		var extra []string
		for _, v := range w.Cfg.Vars {
			if !registered[v.Name] && r.P(0.3) {
				extra = append(extra, v.Name)
			}
		}
		regSome(extra)
		if r.P(0.15) {
			w.Steps = append(w.Steps, Step{Op: []string{"copyconf", "extend"}[r.Intn(2)]})
		}
		if r.P(0.2) {
			// idempotence: registering a known name again
			var known []string
			for n := range registered {
				known = append(known, n)
			}
			sort.Strings(known)
			if len(known) > 0 {
				w.Steps = append(w.Steps, Step{Op: "regkey", Name: known[r.Intn(len(known))]})
			}
		}
		var need []string
		for _, n := range referencedVars(w.Progs[pi]) {
			if !registered[n] {
				need = append(need, n)
			}
		}
		if !undefined || r.P(0.5) {
			regSome(need)
		} else {
			// a name that is also a built-in operator's can only be a registered variable
			var must []string
			for _, n := range need {
				if opLikeVarNames[n] {
					must = append(must, n)
				}
			}
			regSome(must)
		}
		w.Steps = append(w.Steps, Step{Op: "compile", Expr: pi, Mask: r.Intn(16)})
		compiled[pi] = true
		// evaluate now, or after more registrations
		if r.P(0.5) {
			var more []string
			for _, v := range w.Cfg.Vars {
				if !registered[v.Name] && r.P(0.5) {
					more = append(more, v.Name)
				}
			}
			regSome(more)
		}
		ne := r.Range(1, 2)
		for e := 0; e < ne; e++ {
			p := Plan{Bind: map[string]V{}}
			for _, v := range w.Cfg.Vars {
				p.Bind[v.Name] = rawValue(g, v.Ty)
				if v.Ty != TBool && r.P(0.04) { // never a direct operand of and/or (the documented domain)
					// bound, to nil: a value like any other to read by name (both
					// fetchers hold it; it is not "unavailable")
					p.Bind[v.Name] = VNil()
				}
			}
			target := pi
			if r.P(0.3) {
				// an earlier compiled program, evaluated under the grown configuration
				var done []int
				for q := range compiled {
					done = append(done, q)
				}
				sort.Ints(done)
				target = done[r.Intn(len(done))]
			}
			w.Steps = append(w.Steps, Step{Op: "eval", Expr: target, Plan: &p})
		}
	}
	if r.P(0.3) {
		p := Plan{Bind: map[string]V{}}
		for _, v := range w.Cfg.Vars {
			p.Bind[v.Name] = rawValue(g, v.Ty)
		}
		pi := r.Intn(len(w.Progs))
		w.Steps = append(w.Steps, Step{Op: "oneshot", Expr: pi, Plan: &p})
		for k, n := 0, r.Intn(3); k < n; k++ {
			// the same text again with another binding (and another map order)
			q := Plan{Bind: map[string]V{}}
			for _, v := range w.Cfg.Vars {
				q.Bind[v.Name] = rawValue(g, v.Ty)
			}
			w.Steps = append(w.Steps, Step{Op: "oneshot", Expr: pi, Plan: &q})
		}
	}
	if r.P(0.3) {
		// eval.Eval(text, vals, ExtendConf(cc)): the one-shot helper on top of the
		// history's configuration; the binding also holds names cc does not know
		pi := r.Intn(len(w.Progs))
		var need []string
		for _, n := range referencedVars(w.Progs[pi]) {
			if !registered[n] {
				need = append(need, n)
			}
		}
		if !undefined {
			regSome(need)
		}
		p := Plan{Bind: map[string]V{}}
		for _, v := range w.Cfg.Vars {
			p.Bind[v.Name] = rawValue(g, v.Ty)
		}
		w.Steps = append(w.Steps, Step{Op: "oneshot_extend", Expr: pi, Plan: &p})
	}
	return w
}

type recFetcher struct {
	inner eval.VariableFetcher
	log   *[]Call
}

func (f recFetcher) Get(k eval.VariableKey, s string) (eval.Value, error) {
	v, err := f.inner.Get(k, s)
	*f.log = append(*f.log, Call{Kind: "get", Name: s, VarKey: int16(k), Res: v})
	return v, err
}
func (f recFetcher) Set(k eval.VariableKey, s string, v eval.Value) error {
	return f.inner.Set(k, s, v)
}
func (f recFetcher) Cached(k eval.VariableKey, s string) bool { return f.inner.Cached(k, s) }

func sortedKeys16(m map[string]int16) []string {
	names := make([]string, 0, len(m))
	for n := range m {
		names = append(names, n)
	}
	sort.Strings(names)
	return names
}

func keyMapStr(m map[string]eval.VariableKey) string {
	names := make([]string, 0, len(m))
	for n := range m {
		names = append(names, n)
	}
	sort.Strings(names)
	var sb strings.Builder
	for _, n := range names {
		sb.WriteString(fmt.Sprintf("%s=%d ", n, m[n]))
	}
	return sb.String()
}

func (propC11) Run(w *World, st *Stats) (vv *Violation) {
	wh := w.Hash()
	st.World(wh)
	defer func() {
		if r := recover(); r != nil {
			vv = viol(w, "panic", "library panicked during the history: %v\n%s", r, trimStack(string(debug.Stack())))
		}
	}()
	cc := eval.NewConfig()
	for k, v := range w.Cfg.Consts {
		cc.ConstantMap[k] = v.Go()
	}
	ref := map[string]eval.VariableKey{} // the reference registry
	mechanisms := map[string]bool{}
	evals := 0
	exprs := map[int]*eval.Expr{}
	trees := map[int]*Node{} // the optimised tree of each compiled program, as Dump shows it
	consts := w.Cfg.ConstVals()

	alias, twin := w.Extra["alias"], w.Extra["twin"]

	checkRegistry := func(step int, s Step) *Violation {
		// existing assignments unchanged
		for n, k := range ref {
			got, ok := cc.VariableKeyMap[n]
			if !ok {
				return viol(w, "key-lost", "step %d (%s): the key of %q disappeared", step, s.Op, n)
			}
			if got != k {
				return viol(w, "key-changed", "step %d (%s): the key of %q changed from %d to %d", step, s.Op, n, k, got)
			}
		}
		// injective
		seen := map[eval.VariableKey]string{}
		for n, k := range cc.VariableKeyMap {
			if o, dup := seen[k]; dup && (n == alias && o == twin || n == twin && o == alias) {
				continue // the caller's own alias pair
			} else if dup {
				a, b := n, o
				if a > b {
					a, b = b, a
				}
				return viol(w, "key-collision", "step %d (%s): key %d is assigned to both %q and %q", step, s.Op, k, a, b)
			}
			seen[k] = n
			if k == eval.UndefinedVarKey {
				return viol(w, "reserved-key", "step %d (%s): %q was given the reserved undefined key", step, s.Op, n)
			}
		}
		for n, k := range cc.VariableKeyMap {
			ref[n] = k
		}
		return nil
	}

	for si, s := range w.Steps {
		st.Steps++
		switch s.Op {
		case "setkeys":
			for n, k := range s.Keys {
				if _, ok := cc.VariableKeyMap[n]; !ok {
					cc.VariableKeyMap[n] = eval.VariableKey(k)
				}
			}
			mechanisms["explicit"] = true
		case "undefined":
			cc.CompileOptions[eval.AllowUndefinedVariable] = true
			mechanisms["undefined"] = true
		case "regkey":
			_, known := cc.VariableKeyMap[s.Name]
			k1 := eval.GetOrRegisterKey(cc, s.Name)
			k2 := eval.GetOrRegisterKey(cc, s.Name)
			st.Evals += 2
			if k1 != k2 {
				return viol(w, "not-idempotent", "step %d: GetOrRegisterKey(%q) returned %d, then %d", si, s.Name, k1, k2)
			}
			if got := cc.VariableKeyMap[s.Name]; got != k1 {
				return viol(w, "key-mismatch", "step %d: GetOrRegisterKey(%q) returned %d but the map holds %d", si, s.Name, k1, got)
			}
			if known {
				st.Probe("reregistered_known_name")
			}
			mechanisms["GetOrRegisterKey"] = true
		case "regvarop":
			vals := map[string]interface{}{}
			for _, n := range s.Names {
				vals[n] = 0
			}
			eval.RegVarAndOp(vals)(cc)
			st.Evals++
			st.Faults["map_order"]++
			mechanisms["RegVarAndOp"] = true
		case "copyconf":
			cc = eval.CopyConfig(cc)
			st.Evals++
		case "extend":
			cc = eval.NewConfig(eval.ExtendConf(cc))
			st.Evals++
		case "compile":
			src := w.Progs[s.Expr].Src()
			for i, o := range optNames {
				cc.CompileOptions[o] = s.Mask&(1<<i) != 0
			}
			e, err := eval.Compile(cc, src)
			st.Evals++
			if err != nil {
				if !cc.CompileOptions[eval.AllowUndefinedVariable] {
					return viol(w, "compile-error", "step %d: Compile rejected %s although every variable is registered: %v", si, src, err)
				}
				return viol(w, "compile-error", "step %d: Compile rejected %s in undefined-variable mode: %v", si, src, err)
			}
			exprs[s.Expr] = e
			tree, derr := ReadDump(eval.Dump(e))
			if derr != nil {
				return viol(w, "dump-unreadable", "step %d: Dump of %s cannot be read back: %v", si, src, derr)
			}
			trees[s.Expr] = tree
		case "eval", "oneshot", "oneshot_extend":
			prog := w.Progs[s.Expr]
			vals := map[string]interface{}{}
			norm := map[string]V{}
			for n, v := range s.Plan.Bind {
				vals[n] = v.Go()
				norm[n] = FromGo(v.Norm())
			}
			if tv, ok := vals[twin]; ok && alias != "" && si%2 == 0 {
				vals[alias] = tv // a binding may hold the alias too, with its twin's value
			}
			// the exported normalisation helpers agree with the documented table
			if s.Op == "eval" {
				tv := eval.ToValueMap(vals)
				for n, v := range s.Plan.Bind {
					if got := tv[n]; !ValEq(got, v.Norm()) {
						return viol(w, "normalisation", "step %d: ToValueMap normalises %s=%s (Go type %s) to %s, documented: %s", si, n, ValStr(v.Go()), v.T, ValStr(got), ValStr(v.Norm()))
					}
					if got := eval.UnifyType(v.Go()); !ValEq(got, v.Norm()) {
						return viol(w, "normalisation", "step %d: UnifyType normalises %s (Go type %s) to %s, documented: %s", si, ValStr(v.Go()), v.T, ValStr(got), ValStr(v.Norm()))
					}
				}
				st.Evals++
			}
			// reference: left-to-right evaluation of the program as compiled (the
			// Dump tree), with every variable read by name from the normalised
			// binding; the one-shot call compiles with optimisations off
			rprog := prog
			if s.Op == "eval" {
				if trees[s.Expr] == nil {
					continue // the compile step was removed by shrinking
				}
				rprog = trees[s.Expr]
			}
			renv := NewEnv(nil, &Plan{Bind: norm})
			want, werr := (&Interp{Consts: consts, Env: renv}).L2R(rprog)
			if _, ood := werr.(*OutOfDomain); ood {
				st.Skipped++
				continue
			}
			var got eval.Value
			var gerr error
			var log []Call
			if s.Op == "oneshot_extend" {
				got, gerr = eval.Eval(prog.Src(), vals, eval.ExtendConf(cc), eval.Optimizations(false))
				st.Probe("oneshot_extend_runs")
			} else if s.Op == "oneshot" {
				if len(consts) > 0 {
					cm := consts
					got, gerr = eval.Eval(prog.Src(), vals, eval.RegVarAndOp(vals), eval.Optimizations(false), func(c *eval.Config) {
						for k, v := range cm {
							c.ConstantMap[k] = v
						}
					})
				} else {
					got, gerr = eval.Eval(";;;;optimize:false\n"+prog.Src(), vals)
				}
				st.Probe("oneshot_runs")
			} else {
				e := exprs[s.Expr]
				if e == nil {
					continue // the compile step was removed by shrinking
				}
				ctx := eval.NewCtxFromVars(cc, vals)
				switch ctx.VariableFetcher.(type) {
				case eval.SliceVarFetcher:
					st.Probe("slice_fetcher_selected")
				case eval.MapVarFetcher:
					st.Probe("map_fetcher_selected")
				}
				ctx.VariableFetcher = recFetcher{inner: ctx.VariableFetcher, log: &log}
				got, gerr = e.Eval(ctx)
				// every referenced variable is bound, so every one is available to
				// TryEval through whichever fetcher NewCtxFromVars picked: it reads
				// the same values by name and must come to the same outcome
				tgot, tgerr := e.TryEval(eval.NewCtxFromVars(cc, vals))
				st.Evals++
				if (gerr == nil) != (tgerr == nil) || gerr == nil && !ValEq(got, tgot) {
					return viol(w, "tryeval-differs", "step %d: %s under keys {%s} with every variable bound: Eval returns %s err=%v, TryEval returns %s err=%v", si, prog.Src(), keyMapStr(cc.VariableKeyMap), ValStr(got), gerr, ValStr(tgot), tgerr)
				}
			}
			st.Evals++
			evals++
			st.Path(hash64(fmt.Sprint(log, gerr != nil, s.Op)))
			// keys are left out of the trace: RegVarAndOp's assignment follows Go
			// map order, which no seed controls; results must not depend on it
			st.T(" step %d %s expr %d -> %s err=%v", si, s.Op, s.Expr, ValStr(got), gerr)
			switch {
			case werr == nil && gerr != nil:
				return viol(w, "spurious-error", "step %d: %s under keys {%s}: reference %s, engine error %v", si, prog.Src(), keyMapStr(cc.VariableKeyMap), ValStr(want), gerr)
			case werr != nil && gerr == nil:
				return viol(w, "missing-error", "step %d: %s: reference fails (%v), engine returned %s", si, prog.Src(), werr, ValStr(got))
			case werr == nil && !ValEq(got, want):
				return viol(w, "wrong-variable-value", "step %d: %s under keys {%s}: by-name reference value %s, engine %s", si, prog.Src(), keyMapStr(cc.VariableKeyMap), ValStr(want), ValStr(got))
			}
			if s.Op == "eval" {
				// the smallest expression there is: one variable, written in infix
				// notation (where it needs no parentheses)
				var plain []string
				for _, n := range sortedKeys(s.Plan.Bind) {
					_, isConst := consts[n]
					_, reg := cc.VariableKeyMap[n]
					if infixPlainNames[n] && !isConst && (reg || cc.CompileOptions[eval.AllowUndefinedVariable]) {
						plain = append(plain, n)
					}
				}
				if len(plain) > 0 {
					n := plain[si%len(plain)]
					for _, src := range []string{n, "(" + n + ")"} {
						ic := eval.CopyConfig(cc)
						ic.CompileOptions[eval.InfixNotation] = true
						ie, err := eval.Compile(ic, src)
						st.Evals++
						if err != nil {
							return viol(w, "compile-error", "step %d: Compile rejected the infix expression %q: %v", si, src, err)
						}
						got, gerr := ie.Eval(eval.NewCtxFromVars(ic, vals))
						st.Evals++
						if gerr != nil || !ValEq(got, norm[n].Go()) {
							return viol(w, "wrong-variable-value", "step %d: infix expression %q under keys {%s}: bound value normalises to %s, engine returned %s err=%v", si, src, keyMapStr(ic.VariableKeyMap), ValStr(norm[n].Go()), ValStr(got), gerr)
						}
					}
					st.Probe("infix_bare_variable")
				}
			}
			for _, c := range log {
				if nv, ok := norm[c.Name]; ok && !ValEq(c.Res, nv.Go()) {
					return viol(w, "wrong-variable-value", "step %d: fetcher returned %s for %q (key %d), bound value normalises to %s", si, ValStr(c.Res), c.Name, c.VarKey, ValStr(nv.Go()))
				}
			}
		}
		if v := checkRegistry(si, s); v != nil {
			return v
		}
	}
	minK, maxK := eval.VariableKey(math.MaxInt16), eval.VariableKey(math.MinInt16)
	for _, k := range cc.VariableKeyMap {
		if k < minK {
			minK = k
		}
		if k > maxK {
			maxK = k
		}
	}
	switch {
	case len(cc.VariableKeyMap) == 0:
		st.Probe("layout_empty")
	case minK < 0:
		st.Probe("layout_negative_key")
	case maxK == 255:
		st.Probe("layout_max_255")
	case maxK == 256:
		st.Probe("layout_max_256")
	case maxK > 256:
		st.Probe("layout_above_256")
	case minK == 0:
		st.Probe("layout_min_0")
	default:
		st.Probe("layout_small_positive")
	}
	if len(mechanisms) >= 2 && len(ref) >= 2 && evals > 0 {
		st.Nontrivial(wh)
	}
	st.Sample(w.Canon())
	return nil
}
