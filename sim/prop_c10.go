package sim

import (
	"fmt"
	"runtime/debug"
	"strings"

	"github.com/onheap/eval"
)

// C10 — Constant folding respects operator purity and defers failures to run time.
//
// Simulated system: a loader compiles a rule (Compile may call stateless
// operators while folding; the simulator can make such a call fail), then the
// logical clock advances and a request evaluates the rule, 1-6 times. Every
// user-operator call is logged with the phase it happened in.
type propC10 struct{}

func init() {
	Register(propC10{})
	meta["C10"] = propMeta{
		Rule: "A case is one world: a constant-heavy program mixing literals, constants, variables, built-ins, stateless-declared and undeclared user operators (a clock reader and an always-failing operator among them), failing constant sub-expressions in reached and unreached positions; compiled under 4 option subsets (always including folding-only and none) with an optional injected failure of a stateless operator during Compile; then 1-6 evaluations with the logical clock advanced between them. Checked per phase: only stateless-declared operators run during Compile; Compile succeeds whenever the unoptimised compile does; per evaluation the undeclared-operator calls equal those of the L2R reference on the Dump tree; the value equals the reference value at that evaluation's clock; errors occur iff the reference on the Dump tree fails; with folding as the only rewrite, every constant Dump shows in place of a non-literal sub-tree is one the statement allows; in worlds without constants the one-shot eval.Eval(text, vals) makes the same user-operator calls and returns the same value or error as Compile with the same names registered followed by Eval (the value of a variable is no constant). evaluations = calls into the library. non-trivial = distinct worlds in which folding changed the program and at least one user operator was called at evaluation time.",
		Assumptions: []string{
			"'folded only when': a sub-tree may be replaced by a constant iff it mentions no variable and no undeclared operator and evaluates without error to that constant, or it is an and/or one of whose operands folds to its absorbing value; folding less is never an alarm",
			"built-in operators are not observable from outside and are not restricted during Compile",
			"evaluations are fault-free apart from failing operators; all variables are bound",
			"sampling: a clean batch is evidence, not proof",
		},
		Engines:    []string{"INLINE (history: compile, then n evaluations on a logical clock)"},
		FaultKinds: []string{"compile_op_error", "op_error", "clock_advance"},
		Clock:      true,
	}
}

func (propC10) ID() string { return "C10" }

func (propC10) Gen(r *Rng, tier string) *World {
	k := DrawKnobs(r)
	k.ConstHeavy = r.P(0.8)
	k.NOps = r.Range(2, 5)
	k.Stateless = 0.5
	k.NowOp = r.P(0.6)
	k.FailOp = r.P(0.5)
	k.CountOp = r.P(0.5)
	k.PUnbound = 0
	k.NoSetConst = true
	k.PIll = []float64{0, 0.03, 0.08}[r.Intn(3)]
	if k.NVars > 4 {
		k.NVars = r.Range(0, 4)
	}
	g := NewGen(r, k)
	w := &World{Prop: "C10"}
	w.Prog = g.Program()
	if r.P(0.03) {
		// an and/or without operands (e.g. generated from an empty rule list):
		// it compiles, and evaluating it is an operand-count error — at run time
		w.Prog = If(g.Leaf(TBool), Op(PickS(r, []string{"and", "or", "&&"})), w.Prog)
	}
	w.Cfg = g.C
	for i := range w.Cfg.Ops {
		if w.Cfg.Ops[i].Kind == "fail" && r.P(0.4) {
			w.Cfg.Ops[i].Stateless = true
		}
	}
	w.Cfg.ViaDirect = r.P(0.3)
	w.Cfg.DirStyle = r.Intn(8)
	w.Cfg.ViaAPI = r.P(0.4)
	w.Cfg.Event = []string{"", "", "", "report"}[r.Intn(4)]
	w.Masks = []int{0, OptCF, r.Intn(16) | OptCF, r.Intn(16), []int{OptRN, OptFE, OptRN | OptFE}[r.Intn(3)]}
	ops := SpecMap(w.Cfg.Ops)
	// compile phase: optionally make stateless operators fail on particular arguments
	cp := Plan{Kind: "compile"}
	bind := g.Binding()
	ref := RefL2R(&w.Cfg, ops, w.Prog, &Plan{Bind: bind})
	if r.P(0.5) {
		for _, c := range ref.Env.Log {
			if c.Kind == "op" && ops[c.Name].Stateless && r.P(0.4) {
				cp.FailOps = append(cp.FailOps, OpKey(c.Name, c.Args))
			}
		}
	}
	w.Calls = append(w.Calls, cp)
	n := r.Range(1, 6)
	clock := int64(r.Range(1, 1000))
	for i := 0; i < n; i++ {
		p := Plan{Kind: "eval", Bind: bind, Clock: clock}
		if r.P(0.3) {
			p.Bind = g.Binding()
		}
		if r.P(0.5) {
			p.FailOps = cp.FailOps // the operator keeps failing on those arguments
		}
		w.Calls = append(w.Calls, p)
		clock += int64(r.Range(1, 100000))
	}
	return w
}

// foldsTo implements the "folded only when" rule of the statement,
// compositionally: a literal or constant is its value; a variable and an
// undeclared operator never fold; an and/or folds to its absorbing value as
// soon as one operand folds to it; any built-in or stateless-declared operator
// folds when all its operands fold and applying it to them succeeds (under the
// compile-time fault plan); an if folds when its condition and the chosen
// branch do.
type foldUnknownT struct{}

// foldUnknown: the sub-tree may fold, but to a value the reference semantics
// does not define (out of its domain); nothing is demanded of it.
var foldUnknown = foldUnknownT{}

func foldsTo(cfg *CfgSpec, ops map[string]*OpSpec, compilePlan *Plan, s *Node) (interface{}, bool) {
	switch s.K {
	case KLit:
		return s.Val.Go(), true
	case KConst:
		return cfg.Consts[s.Name].Go(), true
	case KVar:
		return nil, false
	case KIf:
		c, ok := foldsTo(cfg, ops, compilePlan, s.Args[0])
		if !ok {
			return nil, false
		}
		if c == foldUnknown {
			return foldUnknown, true
		}
		b, isBool := c.(bool)
		if !isBool {
			return nil, false
		}
		if b {
			return foldsTo(cfg, ops, compilePlan, s.Args[1])
		}
		return foldsTo(cfg, ops, compilePlan, s.Args[2])
	}
	vals := make([]interface{}, len(s.Args))
	all := true
	unknown := false
	for i, c := range s.Args {
		v, ok := foldsTo(cfg, ops, compilePlan, c)
		if !ok {
			all = false
			continue
		}
		if v == foldUnknown {
			unknown = true
		}
		vals[i] = v
		if (s.IsOr() && v == true) || (s.IsAnd() && v == false) {
			return v, true
		}
	}
	if unknown && (s.IsAnd() || s.IsOr()) {
		return foldUnknown, true // the unknown operand might be the absorbing one
	}
	if !all {
		return nil, false
	}
	if unknown {
		return foldUnknown, true
	}
	if IsBuiltin(s.Name) {
		v, err := ApplyBuiltin(s.Name, vals)
		if _, ood := err.(*OutOfDomain); ood {
			// the reference semantics does not cover this application; say nothing
			return foldUnknown, true
		}
		return v, err == nil
	}
	if sp := ops[s.Name]; sp != nil && sp.Stateless {
		v, err := NewEnv(ops, compilePlan).CallOp(s.Name, vals)
		return v, err == nil
	}
	return nil, false
}

// lockstep walks the source tree and the folding-only Dump tree together.
func lockstep(cfg *CfgSpec, ops map[string]*OpSpec, cp *Plan, src, dmp *Node, st *Stats) string {
	if dmp.K == KLit {
		switch src.K {
		case KLit:
			if !ValEq(src.Val.Go(), dmp.Val.Go()) {
				return fmt.Sprintf("literal %s became %s", src.Src(), dmp.Src())
			}
			return ""
		case KConst:
			if !ValEq(cfg.Consts[src.Name].Go(), dmp.Val.Go()) {
				return fmt.Sprintf("constant %s=%s became %s", src.Name, ValStr(cfg.Consts[src.Name].Go()), dmp.Src())
			}
			return ""
		}
		st.Probe("folded_subtrees")
		v, ok := foldsTo(cfg, ops, cp, src)
		if !ok {
			return fmt.Sprintf("sub-expression %s was replaced by the constant %s, which the folding rule does not allow (it mentions a variable or an undeclared operator without a deciding constant, or it fails)", src.Src(), dmp.Src())
		}
		if v == foldUnknown {
			return ""
		}
		if !ValEq(v, dmp.Val.Go()) {
			return fmt.Sprintf("sub-expression %s was folded to %s, its value is %s", src.Src(), dmp.Src(), ValStr(v))
		}
		return ""
	}
	structural := func() string {
		if src.K != dmp.K || src.Name != dmp.Name || len(src.Args) != len(dmp.Args) {
			return fmt.Sprintf("folding-only compile rewrote %s into %s", src.Src(), dmp.Src())
		}
		for i := range src.Args {
			if d := lockstep(cfg, ops, cp, src.Args[i], dmp.Args[i], st); d != "" {
				return d
			}
		}
		return ""
	}
	d := structural()
	if d == "" || src.K != KIf {
		return d
	}
	// an `if` whose condition folds to a boolean may be replaced by the branch
	// it takes: nothing is evaluated that left-to-right evaluation would not
	// evaluate, and no result is baked in. (The library does not do this
	// today; a correct implementation of it must not be an alarm.)
	if c, ok := foldsTo(cfg, ops, cp, src.Args[0]); ok {
		if b, isBool := c.(bool); isBool {
			if b {
				return lockstep(cfg, ops, cp, src.Args[1], dmp, st)
			}
			return lockstep(cfg, ops, cp, src.Args[2], dmp, st)
		}
		if c == foldUnknown {
			return ""
		}
	}
	return d
}

func opCalls(log []Call, ops map[string]*OpSpec, undeclaredOnly bool) []Call {
	var r []Call
	for _, c := range log {
		if c.Kind != "op" {
			continue
		}
		if undeclaredOnly && ops[c.Name].Stateless {
			continue
		}
		r = append(r, c)
	}
	return r
}

func (propC10) Run(w *World, st *Stats) *Violation {
	ops := SpecMap(w.Cfg.Ops)
	wh := w.Hash()
	st.World(wh)
	if len(w.Calls) == 0 || w.Calls[0].Kind != "compile" {
		w.Calls = append([]Plan{{Kind: "compile"}}, w.Calls...)
	}
	cp := &w.Calls[0]
	masks := w.Masks
	if len(masks) == 0 {
		masks = []int{w.Cfg.OptMask}
	}
	// the unoptimised compile decides whether the source is acceptable at all
	c0, err0, pan0 := CompileSpec(&w.Cfg, w.Prog, 0, false, NewEnv(ops, &Plan{}))
	st.Evals++
	if pan0 != nil {
		return viol(w, "compile-panic", "unoptimised Compile panicked: %v", pan0)
	}
	if err0 != nil {
		return viol(w, "compile-error", "Compile rejected a well-formed program: %v", err0)
	}
	baseDump := oneLine(c0.RunEnv(NewEnv(ops, &Plan{}), "dump").Text)
	usesCount := false
	w.Prog.Walk(func(n *Node) {
		if n.K == KOp && ops[n.Name] != nil && ops[n.Name].Kind == "count" {
			usesCount = true
		}
	})
	for _, mask := range masks {
		mw := w.Clone()
		mw.Masks = []int{mask}
		cenv := NewEnv(ops, cp)
		cenv.Phase = "compile"
		c, err, pan := CompileSpec(&w.Cfg, w.Prog, mask, w.Cfg.ViaDirect, cenv)
		st.Evals++
		st.AddFaults(map[string]int{"compile_op_error": cenv.Fired["op_error"]})
		if pan != nil {
			return viol(mw, "compile-panic", "Compile panicked under %s: %v", maskName(mask), pan)
		}
		// (ii) failures during folding never make Compile fail
		if err != nil {
			return viol(mw, "compile-fails", "unoptimised Compile accepts the source, Compile under %s fails: %v", maskName(mask), err)
		}
		// (i) only stateless-declared operators run during Compile
		for _, call := range cenv.Log {
			if call.Kind != "op" {
				return viol(mw, "compile-side-effect", "Compile performed %v", call)
			}
			if !ops[call.Name].Stateless {
				return viol(mw, "undeclared-op-at-compile", "operator %s is not declared stateless but was invoked during Compile under %s: %v", call.Name, maskName(mask), call)
			}
			st.Probe("stateless_calls_during_compile")
		}
		if mask&OptCF == 0 && len(cenv.Log) > 0 {
			return viol(mw, "fold-without-option", "ConstantFolding is off, yet Compile invoked %v", cenv.Log[0])
		}
		tree, text, derr := c.DumpTree()
		if derr != nil {
			return viol(mw, "dump-unreadable", "Dump output cannot be read back: %v\n%s", derr, text)
		}
		dump := oneLine(text)
		folded := dump != baseDump
		st.T("world %x mask %d dump=%s compile_calls=%d", wh, mask, dump, len(cenv.Log))
		// (vi) folded only when allowed
		if mask == OptCF {
			if d := lockstep(&w.Cfg, ops, cp, w.Prog, tree, st); d != "" {
				return viol(mw, "illegal-fold", "%s\nsource: %s\ndump:   %s", d, w.Prog.Src(), dump)
			}
		}
		opsAtEval := 0
		for ci := 1; ci < len(w.Calls); ci++ {
			p := &w.Calls[ci]
			kw := mw.Clone()
			kw.Calls = []Plan{*cp, *p}
			out := c.Run(ops, p, fmt.Sprintf("eval#%d", ci))
			st.Evals++
			st.Steps += int64(out.Env.N)
			st.AddFaults(out.Env.Fired)
			st.Path(pathHash(&out))
			if ci > 1 && p.Clock != w.Calls[ci-1].Clock {
				st.Ticks += p.Clock - w.Calls[ci-1].Clock
				st.Faults["clock_advance"]++
			}
			st.T(" eval#%d clock=%d -> %s %s", ci, p.Clock, out.Class(), ValStr(out.Val))
			if out.Panic != nil {
				return viol(kw, "panic", "Eval panicked: %v\n%s", out.Panic, out.Stack)
			}
			// (iii) undeclared operators: exactly the calls of L2R on the Dump tree, every time
			refD := RefL2R(&w.Cfg, ops, tree, p)
			if _, ood := refD.Err.(*OutOfDomain); ood {
				st.Skipped++
				continue
			}
			want, got := opCalls(refD.Env.Log, ops, false), opCalls(out.Env.Log, ops, false)
			opsAtEval += len(got)
			if d := logDiff(&w.Cfg, want, got); d != "" {
				kind := "op-call-mismatch"
				if strings.Contains(d, "missing") {
					kind = "missing-op-call" // a result baked into the program shows up here
				}
				return viol(kw, kind, "evaluation %d under %s, dump %s\n%s\nengine op calls: %v", ci, maskName(mask), dump, d, got)
			}
			// (v) an error surfaces iff the sub-expression is actually reached
			if (refD.Err != nil) != (out.Err != nil) {
				return viol(kw, "error-reach", "evaluation %d under %s: reference on the Dump tree %s, engine %s (err %v)\ndump: %s", ci, maskName(mask), fmtErr(refD.Err), out.Class(), out.Err, dump)
			}
			// (iv) the value is the value at this evaluation's clock
			refS := RefL2R(&w.Cfg, ops, w.Prog, p)
			if _, ood := refS.Err.(*OutOfDomain); ood {
				st.Skipped++
				continue
			}
			if usesCount && mask&(OptRO|OptCF) != 0 {
				// reordering changes the order of calls and folding may drop a
				// sub-expression a constant decides: both legitimately change what
				// a call-counting operator returns
				continue
			}
			if mask&(OptRO|OptCF) == 0 && refS.Err == nil {
				// neither flattening nor fast evaluation may add, drop or reorder an
				// operator application: the calls are those of the SOURCE tree
				wantS := opCalls(refS.Env.Log, ops, false)
				if d := logDiff(&w.Cfg, wantS, got); d != "" {
					return viol(kw, "op-calls-differ-from-source", "evaluation %d under %s (no folding, no reordering): the operator applications differ from left-to-right evaluation of the source\n%s\nsource: %s\ndump:   %s", ci, maskName(mask), d, w.Prog.Src(), dump)
				}
			}
			if refS.Err == nil && out.Err == nil && !ValEq(refS.Val, out.Val) {
				return viol(kw, "stale-or-wrong-value", "evaluation %d at clock %d under %s: reference on the source returns %s, engine returns %s\ndump: %s", ci, p.Clock, maskName(mask), ValStr(refS.Val), ValStr(out.Val), dump)
			}
			if mask&OptRO == 0 && refS.Err == nil && out.Err != nil {
				return viol(kw, "spurious-error", "evaluation %d under %s: reference on the source returns %s, engine fails: %v\ndump: %s", ci, maskName(mask), ValStr(refS.Val), out.Err, dump)
			}
			if out.Err != nil {
				st.Probe("error_surfaced_at_eval")
			}
		}
		if folded && opsAtEval > 0 {
			st.Nontrivial(wh)
		}
		if folded {
			st.Probe("folding_changed_program")
		}
		if cenv.Fired["op_error"] > 0 {
			st.Probe("stateless_op_failed_during_compile")
		}
	}
	if v := c10OneShot(w, st, ops); v != nil {
		return v
	}
	st.Sample(w.Canon())
	return nil
}

// c10OneShot: the one-shot eval.Eval(text, vals) compiles with the default
// options and evaluates once. What it may fold is what the two-step form
// (Compile with the same names registered, then Eval of the same values) may
// fold: a variable's value is no constant, so the same user-operator calls
// happen and the same value or error comes back.
func c10OneShot(w *World, st *Stats, ops map[string]*OpSpec) *Violation {
	if len(w.Cfg.Consts) > 0 || len(w.Calls) < 2 {
		return nil // constants cannot be passed to the one-shot form without options
	}
	p := &w.Calls[1]
	for _, v := range w.Cfg.Vars {
		if _, ok := p.Bind[v.Name]; !ok {
			return nil
		}
	}
	src := w.Prog.Src()
	run := func(oneShot bool) (out Outcome) {
		env := NewEnv(ops, p)
		env.Phase = "eval"
		out.Env = env
		host := &OpHost{Specs: ops, CompileEnv: env}
		vals := map[string]interface{}{}
		for n, v := range p.Bind {
			vals[n] = v.Go()
		}
		for _, sp := range w.Cfg.Ops {
			vals[sp.Name] = host.Operator(sp.Name)
		}
		defer func() {
			if r := recover(); r != nil {
				out.Panic = r
				out.Stack = string(debug.Stack())
			}
		}()
		if oneShot {
			out.Val, out.Err = eval.Eval(src, vals)
			return
		}
		cc := eval.NewConfig(eval.RegVarAndOp(vals))
		e, err := eval.Compile(cc, src)
		if err != nil {
			out.Err = err
			return
		}
		out.Val, out.Err = e.Eval(eval.NewCtxFromVars(cc, vals))
		return
	}
	two := run(false)
	one := run(true)
	st.Evals += 2
	if two.Panic != nil || one.Panic != nil {
		return viol(w, "panic", "one-shot %v / two-step %v panicked\n%s%s", one.Panic, two.Panic, one.Stack, two.Stack)
	}
	if (one.Err == nil) != (two.Err == nil) || (one.Err == nil && !ValEq(one.Val, two.Val)) {
		return viol(w, "oneshot-differs", "eval.Eval(text, vals) returns %s err=%v; Compile with the same names registered and Eval of the same values returns %s err=%v\nsource: %s", ValStr(one.Val), one.Err, ValStr(two.Val), two.Err, src)
	}
	if d := logDiff(&w.Cfg, opCalls(two.Env.Log, ops, false), opCalls(one.Env.Log, ops, false)); d != "" {
		return viol(w, "oneshot-differs", "the user-operator calls of eval.Eval(text, vals) differ from those of Compile + Eval with the same names and values (a variable's value is no constant)\n%s\nsource: %s", d, src)
	}
	st.Probe("oneshot_equals_two_step")
	return nil
}
