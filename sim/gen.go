package sim

import (
	"math"
	"strconv"
)

// Knobs are the swarm parameters of one generated world: every run draws its
// own, so no property silently depends on one shape of program.
type Knobs struct {
	MaxDepth   int
	MaxFan     int
	PLeaf      float64 // chance to stop early at a leaf
	PIll       float64 // ill-typed operand of a strict operator
	PIllCond   float64 // non-boolean if condition
	NVars      int
	NConsts    int
	NOps       int
	UndefMode  int     // 0 all registered, 1 all undefined, 2 mixed
	KeyLayout  int     // see genKeys
	Sets       bool    // pre-built sets as constants / bindings
	NoSetConst bool    // sets only as bindings (Dump of a set constant cannot be read back)
	FailOp     bool    // a user operator that always fails is available
	NowOp      bool    // a clock-reading user operator is available
	PUnbound   float64 // chance that a variable is left out of the binding
	BoolBias   float64 // weight of and/or/if among bool productions
	WeirdStr   bool    // strings with spaces, parens, semicolons, line breaks, backslashes
	LongLists  bool
	Stateless  float64 // chance that a pure user operator is declared stateless
	NoListEq   bool    // never put lists under eq/ne (documented domain)
	RootBool   bool
	ConstHeavy bool // prefer literals/constants (folding workloads)
	Budget     int  // node budget of one program (0 = default)
	WideOps    bool // n-ary operators with up to 24 operands now and then
	CountOp    bool // a call-counting (non-idempotent) user operator is available
	RawConsts  bool // constants of non-canonical Go types (plain int) in ConstantMap
	OddInts    bool // integer literals spelled with leading zeros or a plus sign
	TupleOp    bool // a user operator that returns its params slice, consumed by other user operators
}

// deepTier is set by the worker for the thorough tier: bigger programs.
var deepTier bool

func DrawKnobs(r *Rng) Knobs {
	k := Knobs{
		MaxDepth:  r.Range(2, 6),
		MaxFan:    r.Range(2, 6),
		PLeaf:     []float64{0.1, 0.2, 0.35}[r.Intn(3)],
		PIll:      []float64{0, 0, 0.03, 0.1}[r.Intn(4)],
		PIllCond:  []float64{0, 0, 0.05}[r.Intn(3)],
		NVars:     r.Range(0, 8),
		NConsts:   r.Range(0, 4),
		NOps:      r.Range(0, 4),
		UndefMode: []int{0, 0, 1, 2}[r.Intn(4)],
		KeyLayout: r.Intn(7),
		Sets:      r.P(0.3),
		FailOp:    r.P(0.4),
		NowOp:     r.P(0.15),
		PUnbound:  []float64{0, 0, 0.1}[r.Intn(3)],
		BoolBias:  []float64{1, 2, 4}[r.Intn(3)],
		WeirdStr:  r.P(0.3),
		LongLists: r.P(0.1),
		Stateless: []float64{0, 0.5}[r.Intn(2)],
		NoListEq:  r.P(0.6),
		RootBool:  r.P(0.7),
		WideOps:   r.P(0.1),
		OddInts:   r.P(0.15),
	}
	if r.P(0.1) { // occasionally a deep, narrow or wide, shallow program
		k.MaxDepth, k.MaxFan = 8, 2
	}
	if r.P(0.07) { // occasionally a big, bushy program: operand stacks beyond 16 slots
		k.MaxDepth, k.MaxFan, k.PLeaf, k.Budget = 7, 6, 0.05, 500
		if deepTier {
			k.MaxDepth, k.Budget = 9, 1500
		}
	}
	return k
}

var (
	varNames   = []string{"a", "b", "c", "d", "x1", "y_2", "user.age", "is_ok", "_t", "Ünï", "v", "w.z", "locale", "n0", "fi", "variable", "operator", "DNE", "T", "nil", "True", "FALSE", "prix_à", "х", "你", "version", "mod", "in"}

	// opLikeVarNames: variable names that are also names of built-in operators. A
	// REGISTERED variable may carry such a name (operator position and operand
	// position do not clash); as an undefined-mode variable it may not.
	opLikeVarNames = map[string]bool{"version": true, "mod": true, "in": true}
	constNames = []string{"K0", "K1", "IOS", "Good", "k_2", "Const.X", "Größe", "格"}
	opNames    = []string{"f0", "f1", "g2", "h3", "calc.it", "is_child", "fi", "AND", "Or", "Not", "IN", "größe", "検査", "F0", "calc_it", "calcit"}
	intPool    = []int64{0, 1, -1, 2, 3, 5, 7, 10, 18, 100, -100, 9999, 10000, math.MaxInt64, math.MinInt64, 4000, 127, 128, 255, 256, 32767, 32768, -32768, math.MaxInt32, math.MinInt32}
	strPlain   = []string{"", "a", "b", "fi", "if", "DNE", "true", "nil", "and", "en-US", "zh", "Male", "1.2.3", "2.3", "10.0.1", "2021-01-01", "2021-01-01 11:58:56", "2020-02-29", "hello", "你好", "2021-01-01T11:58:56+07:00", "2020-02-29T23:59:59-05:30", "2021-06-30T00:00:00Z"}
	strWeird   = []string{"a b", "(x)", ";;c", "tab\there", "line\nbreak", "back\\slash", "x;y", " lead", "👋~ 👶", "[1,2]", "1.2.x", "1.10000", "2021-13-01", "2021-02-30", "99999.1", "1.2.3.4", "2.3.4.beta", "1.2.3.20240115", "2.3.4.", "7.8.x.1", "cr\r\nlf", "\r"}
	layoutPool = []string{"2006-01-02", "2006-01-02 15:04:05", "2006/01/02", "20060102", "02.01.2006 15:04", "2006-01-02T15:04:05Z07:00"}
)

// Gen holds the state of one generation.
type Gen struct {
	R    *Rng
	K    Knobs
	C    CfgSpec
	by   map[Ty][]string // variable names by type
	cb   map[Ty][]string // constant names by type
	ob   map[Ty][]int    // pure/now op indices by return type
	fl   []int           // failing op indices
	left int             // nodes left in the current program's budget
	pool []*Node         // recently generated boolean sub-trees (for deliberate repetition)
	tup  string          // name of the tuple operator, if any
}

// NewGen draws a configuration (variables, constants, user operators).
func NewGen(r *Rng, k Knobs) *Gen {
	g := &Gen{R: r, K: k, by: map[Ty][]string{}, cb: map[Ty][]string{}, ob: map[Ty][]int{}}
	g.C.Consts = map[string]V{}
	// variables
	names := r.Perm(len(varNames))
	keys := g.genKeys(k.NVars)
	for i := 0; i < k.NVars && i < len(names); i++ {
		ty := []Ty{TBool, TBool, TInt, TInt, TStr, TIntList, TStrList}[r.Intn(7)]
		if k.Sets && r.P(0.1) {
			ty = []Ty{TIntSet, TStrSet}[r.Intn(2)]
		}
		vs := VarSpec{Name: varNames[names[i]], Ty: ty, Key: keys[i], Reg: true}
		switch k.UndefMode {
		case 1:
			vs.Reg = false
		case 2:
			vs.Reg = r.P(0.5)
		}
		if opLikeVarNames[vs.Name] {
			vs.Reg = true
		}
		g.C.Vars = append(g.C.Vars, vs)
		g.by[ty] = append(g.by[ty], vs.Name)
	}
	for _, v := range g.C.Vars {
		if !v.Reg {
			g.C.Undefined = true
		}
	}
	if k.UndefMode != 0 && r.P(0.5) {
		g.C.Undefined = true
	}
	// constants
	cn := r.Perm(len(constNames))
	for i := 0; i < k.NConsts; i++ {
		ty := []Ty{TBool, TInt, TInt, TStr, TIntList, TStrList}[r.Intn(6)]
		if k.Sets && !k.NoSetConst && r.P(0.3) {
			ty = []Ty{TIntSet, TStrSet}[r.Intn(2)]
		}
		name := constNames[cn[i]]
		v := g.Value(ty)
		if k.RawConsts && ty == TInt && r.P(0.5) {
			v = V{T: "int", I: int64(int(v.I % 1000))} // a plain Go int in the constant table
		}
		if (ty == TIntList || ty == TStrList) && len(v.IL)+len(v.SL) == 0 && !k.RawConsts {
			// an empty list constant would be printed by Dump as "()" whatever
			// its element type; keep constants unambiguous (worlds that never
			// read Dump back — the RawConsts ones — keep the empty list)
			if ty == TIntList {
				v = VIL([]int64{1})
			} else {
				v = VSL([]string{"a"})
			}
		}
		g.C.Consts[name] = v
		g.cb[ty] = append(g.cb[ty], name)
	}
	// name resolution order: a constant wins over a variable of the same name.
	// Occasionally register a variable under a constant's name (bound to
	// something else); programs only ever mean the constant by it.
	if len(g.C.Consts) > 0 && k.UndefMode == 0 && r.P(0.15) {
		cname := sortedKeys(g.C.Consts)[r.Intn(len(g.C.Consts))]
		ty := []Ty{TBool, TInt, TStr}[r.Intn(3)]
		key := int16(300 + r.Intn(50))
		for used := true; used; {
			used = false
			for _, v := range g.C.Vars {
				if v.Key == key {
					used = true
					key++
				}
			}
		}
		g.C.Vars = append(g.C.Vars, VarSpec{Name: cname, Ty: ty, Key: key, Reg: true})
		// deliberately NOT added to g.by: the generator never emits Var(cname)
	}
	// user operators
	on := r.Perm(len(opNames))
	varName := map[string]bool{}
	for _, v := range g.C.Vars {
		varName[v.Name] = true
	}
	for i := 0; i < k.NOps; i++ {
		ret := []Ty{TBool, TBool, TInt, TInt, TStr}[r.Intn(5)]
		if varName[opNames[on[i]]] {
			continue // one name cannot be both a variable and an operator
		}
		sp := OpSpec{Name: opNames[on[i]], Kind: "pure", Ret: ret, Arity: r.Intn(5)}
		if r.P(k.Stateless) {
			sp.Stateless = true
		}
		sp.Mutates = r.P(0.2)
		if ret == TStr && r.P(0.15) {
			sp.Ret = TAny // returns nil
			sp.Stateless = false
		}
		if ret == TInt && r.P(0.12) {
			sp.Ret = TRawInt // returns a Go int, not an int64
			if !k.RawConsts {
				// folded, its result would be a Go int constant, which Dump prints
				// like an int64: only worlds that never read Dump back may fold it
				sp.Stateless = false
			}
		}
		g.C.Ops = append(g.C.Ops, sp)
		g.ob[ret] = append(g.ob[ret], len(g.C.Ops)-1)
	}
	// a user operator stored under a built-in name (possible through
	// RegVarAndOp or a direct map write): built-ins take precedence, so it must
	// never run. It is not offered to the program generator as a user operator.
	if r.P(0.1) {
		if hn := PickS(r, []string{"add", "+", "eq", "=", "and", "version", "not", "in", ">", "mod", "between"}); !varName[hn] {
			g.C.Ops = append(g.C.Ops, OpSpec{Name: hn, Kind: "pure", Ret: TInt, Arity: 2, Stateless: r.P(0.5)})
		}
	}
	if k.CountOp {
		g.C.Ops = append(g.C.Ops, OpSpec{Name: "take_token", Kind: "count", Ret: TInt, Arity: r.Intn(2)})
		g.ob[TInt] = append(g.ob[TInt], len(g.C.Ops)-1)
	}
	if k.FailOp {
		g.C.Ops = append(g.C.Ops, OpSpec{Name: "cfail", Kind: "fail", Ret: TBool, Arity: r.Intn(3)})
		g.fl = append(g.fl, len(g.C.Ops)-1)
	}
	if k.NowOp {
		g.C.Ops = append(g.C.Ops, OpSpec{Name: "now", Kind: "now", Ret: TInt, Arity: 0})
		g.ob[TInt] = append(g.ob[TInt], len(g.C.Ops)-1)
	}
	// how the caller built its fetcher type: mostly a type of its own, now and
	// then a struct embedding one of the library's fetchers with the three
	// methods overridden
	g.C.Fetcher = []string{"", "", "", "", "", "embed_map", "embed_slice"}[r.Intn(7)]
	if k.TupleOp && len(g.C.Ops) > 0 {
		g.C.Ops = append(g.C.Ops, OpSpec{Name: "tup", Kind: "tuple", Ret: TAny, Arity: 3})
		g.tup = "tup"
	}
	return g
}

// genKeys draws distinct variable keys under one of several layouts, so that
// both sides of every fetcher-selection boundary (min <0 / =0, max 255 / 256)
// and arbitrary int16 keys occur.
func (g *Gen) genKeys(n int) []int16 {
	r := g.R
	keys := make([]int16, n)
	switch g.K.KeyLayout {
	case 0: // what GetOrRegisterKey yields: 1..n
		for i := range keys {
			keys[i] = int16(i + 1)
		}
	case 1: // 0-based
		for i := range keys {
			keys[i] = int16(i)
		}
	case 2: // touching 255
		for i := range keys {
			keys[i] = int16(255 - i)
		}
	case 3: // crossing 256
		for i := range keys {
			keys[i] = int16(256 - i)
		}
	case 4: // negative
		for i := range keys {
			keys[i] = int16(-1 - i*3)
		}
		if n > 0 && r.P(0.3) {
			keys[0] = math.MaxInt16 // the largest key there is
		}
		if n > 1 && r.P(0.3) {
			keys[1] = math.MinInt16 + 1 // just above the reserved undefined key
		}
	default: // arbitrary distinct int16 (never the reserved undefined key)
		seen := map[int16]bool{math.MinInt16: true}
		for i := range keys {
			for {
				k := int16(r.U64())
				if r.P(0.5) {
					k = int16(r.Range(-3, 300))
				}
				if !seen[k] {
					seen[k] = true
					keys[i] = k
					break
				}
			}
		}
	}
	p := r.Perm(n)
	out := make([]int16, n)
	for i := range p {
		out[i] = keys[p[i]]
	}
	return out
}

func (g *Gen) Int() int64 {
	r := g.R
	switch r.Intn(4) {
	case 0:
		return intPool[r.Intn(len(intPool))]
	case 1:
		return int64(r.Range(-3, 12))
	case 2:
		return int64(r.U64())
	}
	return int64(r.Range(0, 3))
}

func (g *Gen) Str() string {
	if g.K.WeirdStr && g.R.P(0.4) {
		return strWeird[g.R.Intn(len(strWeird))]
	}
	return strPlain[g.R.Intn(len(strPlain))]
}

func (g *Gen) listLen() int {
	if g.K.LongLists && g.R.P(0.3) {
		if g.R.P(0.4) {
			return g.R.Range(49, 51) // two of these total 98..102: both sides of the 100-element switch
		}
		return g.R.Range(48, 120)
	}
	if g.R.P(0.08) {
		return g.R.Range(6, 40) // medium: beyond what fits a handful of comparisons
	}
	return g.R.Range(0, 5)
}

// Value draws a value of the given type.
func (g *Gen) Value(t Ty) V {
	r := g.R
	switch t {
	case TBool:
		return VB(r.P(0.5))
	case TInt:
		return VI(g.Int())
	case TStr:
		return VS(g.Str())
	case TIntList, TIntSet:
		n := g.listLen()
		l := make([]int64, n)
		band := r.Intn(3) // long lists: any value, even values only, odd values only — so that two long lists are often disjoint
		for i := range l {
			if n > 8 {
				l[i] = int64(r.Range(0, 300))
				if band > 0 {
					l[i] = l[i]/2*2 + int64(band-1)
				}
			} else {
				l[i] = g.Int()
			}
		}
		if t == TIntSet {
			return VISet(l)
		}
		return VIL(l)
	case TStrList, TStrSet:
		n := g.listLen()
		l := make([]string, n)
		band := r.Intn(3)
		for i := range l {
			if n > 8 {
				x := r.Range(0, 300)
				if band > 0 {
					x = x/2*2 + band - 1
				}
				l[i] = "s" + strconv.Itoa(x)
			} else {
				l[i] = g.Str()
			}
		}
		if t == TStrSet {
			return VSSet(l)
		}
		return VSL(l)
	}
	return VNil()
}

// Binding draws a type-correct value for every variable (some left unbound
// with probability PUnbound).
func (g *Gen) Binding() map[string]V {
	b := map[string]V{}
	for _, v := range g.C.Vars {
		if g.R.P(g.K.PUnbound) {
			continue
		}
		b[v.Name] = g.Value(v.Ty)
	}
	return b
}

// Program draws a typed program whose root is an operator or an if (prefix
// notation requires the whole text to be one parenthesised form).
func (g *Gen) Program() *Node {
	t := TBool
	if !g.K.RootBool {
		t = []Ty{TBool, TInt, TInt, TStr, TIntList}[g.R.Intn(5)]
	}
	for i := 0; i < 20; i++ {
		g.left = g.K.Budget
		if g.left == 0 {
			g.left = 160
		}
		g.pool = nil
		n := g.Expr(t, g.K.MaxDepth)
		if n.K == KOp || n.K == KIf {
			if g.K.PIll > 0 && g.R.P(0.15) {
				// the program next to a look-alike twin: same shape, some
				// literals re-typed into values that print the same (3 / "3",
				// (1 2) / ("1" "2")); the twin is usually ill-typed and must
				// behave as what it says, not as its sibling
				if tw, ok := lookalike(n, g.R); ok {
					if g.R.P(0.5) {
						return If(g.Leaf(TBool), n, tw)
					}
					return If(g.Leaf(TBool), tw, n)
				}
			}
			return n
		}
	}
	x := g.Expr(t, 1)
	return If(Lit(VB(true)), x, g.Expr(t, 1))
}

// lookalike copies n with about half of its integer / integer-list literals
// turned into strings / string lists of the same printed form, and vice versa.
func lookalike(n *Node, r *Rng) (*Node, bool) {
	c := n.Clone()
	changed := false
	var walk func(x *Node)
	walk = func(x *Node) {
		if x.K == KIf || x.K == KOp && (builtinNames[x.Name] == "and" || builtinNames[x.Name] == "or") {
			// direct operands of and/or and the parts of an `if` stay what they
			// are (an `if` may itself be an and/or operand); what is below them
			// may change
			for _, a := range x.Args {
				if a.K == KOp || a.K == KIf {
					walk(a)
				}
			}
			return
		}
		if x.K == KVar && r.P(0.3) {
			// a variable and the string that spells its name
			*x = *Lit(VS(x.Name))
			changed = true
			return
		}
		if x.K == KLit && x.Val != nil && r.P(0.5) {
			switch x.Val.T {
			case "i":
				*x.Val = VS(strconv.FormatInt(x.Val.I, 10))
				x.Raw = ""
				changed = true
			case "s":
				if i, err := strconv.ParseInt(x.Val.S, 10, 64); err == nil && strconv.FormatInt(i, 10) == x.Val.S {
					*x.Val = VI(i)
					changed = true
				}
			case "il":
				if len(x.Val.IL) > 0 {
					var sl []string
					for _, i := range x.Val.IL {
						sl = append(sl, strconv.FormatInt(i, 10))
					}
					*x.Val = VSL(sl)
					changed = true
				}
			}
		}
		for _, a := range x.Args {
			walk(a)
		}
	}
	walk(c)
	return c, changed
}

func (g *Gen) litOf(t Ty) *Node {
	v := g.Value(t)
	if t == TInt && g.K.OddInts && g.R.P(0.4) && v.I > -1000000 && v.I < 1000000 {
		// decimal integer literals may carry leading zeros or an explicit sign
		n := Lit(v)
		a := v.I
		sign := ""
		if a < 0 {
			sign, a = "-", -a
		} else if g.R.P(0.3) {
			sign = "+"
		}
		n.Raw = sign + []string{"0", "00", "000"}[g.R.Intn(3)] + strconv.FormatInt(a, 10)
		if g.R.P(0.2) {
			n.Raw = sign + strconv.FormatInt(a, 10)
			if sign == "" {
				n.Raw = ""
			}
		}
		return n
	}
	if (t == TIntList || t == TStrList) && len(v.IL)+len(v.SL) == 0 {
		return Lit(VSL(nil)) // "()" is the empty list of either element type
	}
	return Lit(v)
}

// Leaf draws a literal, constant or variable of type t.
func (g *Gen) Leaf(t Ty) *Node {
	r := g.R
	if t == TIntSet || t == TStrSet {
		// sets have no literal syntax: constant or variable, else fall back to a list
		var c []*Node
		for _, n := range g.cb[t] {
			c = append(c, Const(n))
		}
		for _, n := range g.by[t] {
			c = append(c, Var(n))
		}
		if len(c) > 0 {
			return c[r.Intn(len(c))]
		}
		if t == TIntSet {
			t = TIntList
		} else {
			t = TStrList
		}
	}
	pv, pc := 0.5, 0.15
	if g.K.ConstHeavy {
		pv, pc = 0.15, 0.25
	}
	if vs := g.by[t]; len(vs) > 0 && r.P(pv) {
		return Var(vs[r.Intn(len(vs))])
	}
	if cs := g.cb[t]; len(cs) > 0 && r.P(pc/(1-pv)) {
		return Const(cs[r.Intn(len(cs))])
	}
	return g.litOf(t)
}

func (g *Gen) otherType(t Ty) Ty {
	for {
		u := []Ty{TBool, TInt, TStr, TIntList, TStrList}[g.R.Intn(5)]
		if u != t {
			return u
		}
	}
}

// arg draws an operand of a strict operator: of type t, or (PIll) of another
// type, so that built-in type errors occur at run time.
func (g *Gen) arg(t Ty, d int) *Node {
	if g.R.P(g.K.PIll) {
		return g.Expr(g.otherType(t), d)
	}
	return g.Expr(t, d)
}

func (g *Gen) fan(min int) int {
	hi := g.K.MaxFan
	if hi < min {
		hi = min
	}
	if g.K.WideOps && g.R.P(0.15) && g.left > 40 {
		return g.R.Range(7, 24) // occasionally an operator with many operands
	}
	return g.R.Range(min, hi)
}

func (g *Gen) args(t Ty, n, d int) []*Node {
	a := make([]*Node, n)
	for i := range a {
		a[i] = g.arg(t, d)
	}
	return a
}

func (g *Gen) customCall(idx int, d int) *Node {
	sp := g.C.Ops[idx]
	a := make([]*Node, sp.Arity)
	for i := range a {
		a[i] = g.Expr([]Ty{TBool, TInt, TInt, TStr, TIntList, TStrList}[g.R.Intn(6)], d)
	}
	if g.tup != "" && len(a) > 0 && g.R.P(0.4) {
		// one argument is the value of (tup x y z): the list of tup's arguments
		n := []int{1, 3, 3, 4}[g.R.Intn(4)] // never 2: the engine hands binary operators a buffer it reuses, they cannot keep it
		t := make([]*Node, n)
		for i := range t {
			t[i] = g.Expr([]Ty{TBool, TInt, TInt, TStr}[g.R.Intn(4)], 1)
		}
		a[g.R.Intn(len(a))] = Op(g.tup, t...)
	}
	return Op(sp.Name, a...)
}

// Expr draws an expression of static type t with at most d levels below it.
func (g *Gen) Expr(t Ty, d int) *Node {
	r := g.R
	g.left--
	if d <= 1 || g.left <= 0 || r.P(g.K.PLeaf) {
		return g.Leaf(t)
	}
	d--
	switch t {
	case TBool:
		return g.boolExpr(d)
	case TInt:
		return g.intExpr(d)
	case TStr:
		switch {
		case len(g.ob[TStr]) > 0 && r.P(0.4):
			return g.customCall(g.ob[TStr][r.Intn(len(g.ob[TStr]))], d)
		case r.P(0.4):
			return g.ifExpr(t, d)
		}
		return g.Leaf(t)
	default:
		if r.P(0.3) {
			return g.ifExpr(t, d)
		}
		return g.Leaf(t)
	}
}

func (g *Gen) ifExpr(t Ty, d int) *Node {
	c := g.Expr(TBool, d)
	if g.R.P(g.K.PIllCond) {
		c = g.Expr(g.otherType(TBool), d)
	}
	if g.R.P(0.06) {
		// both branches the same expression: still an `if` (its condition is
		// evaluated, and may fail)
		x := g.Expr(t, d)
		return If(c, x, x.Clone())
	}
	if g.R.P(0.05) && g.R.P(1-g.K.PIllCond) {
		// a condition that is a literal or a constant
		c = g.litOf(TBool)
		if len(g.cb[TBool]) > 0 && g.R.P(0.5) {
			c = Const(g.cb[TBool][g.R.Intn(len(g.cb[TBool]))])
		}
	}
	return If(c, g.Expr(t, d), g.Expr(t, d))
}

func (g *Gen) boolExpr(d int) *Node {
	r := g.R
	// repetition: the same sub-expression at several places of one program
	// (rewrites that merge or drop "duplicates" must keep every evaluation)
	if len(g.pool) > 0 && r.P(0.08) {
		c := g.pool[r.Intn(len(g.pool))].Clone()
		g.left -= c.Size()
		if g.K.PIll > 0 && r.P(0.4) {
			// not a repetition, only a look-alike: (= env dev) / (= env "dev")
			if tw, ok := lookalike(c, r); ok {
				return tw
			}
		}
		return c
	}
	n := g.boolExpr1(d)
	if s := n.Size(); s >= 2 && s <= 14 {
		if len(g.pool) < 6 {
			g.pool = append(g.pool, n)
		} else {
			g.pool[r.Intn(6)] = n
		}
	}
	return n
}

func (g *Gen) boolExpr1(d int) *Node {
	r := g.R
	w := g.K.BoolBias
	// nested and/or of one kind whose groups repeat an operand: the shape
	// flattening turns into one operator with duplicate operands
	if r.P(0.04) && d >= 2 {
		name := PickS(r, []string{"and", "or", "&", "|", "&&", "||"})
		var x *Node
		if len(g.ob[TInt]) > 0 && r.P(0.7) {
			// an undeclared/user operator one level below a built-in
			x = Op(PickS(r, []string{"<=", ">", "=", "!="}), g.customCall(g.ob[TInt][r.Intn(len(g.ob[TInt]))], 1), Lit(VI(int64(r.Range(-2, 2)))))
		} else if len(g.ob[TBool]) > 0 && r.P(0.5) {
			x = Op("not", g.customCall(g.ob[TBool][r.Intn(len(g.ob[TBool]))], 1))
		} else {
			x = g.Expr(TBool, 2)
		}
		same := func() string {
			if IsAndName(name) {
				return PickS(r, []string{"and", "&", "&&"})
			}
			return PickS(r, []string{"or", "|", "||"})
		}
		g.left -= 3*x.Size() + 6
		switch r.Intn(3) {
		case 0:
			return Op(name, Op(same(), x.Clone(), g.Leaf(TBool)), Op(same(), x.Clone(), g.Leaf(TBool)))
		case 1:
			return Op(name, g.Leaf(TBool), Op(same(), g.Leaf(TBool), x.Clone()), x.Clone())
		}
		return Op(name, x.Clone(), x.Clone(), g.Leaf(TBool))
	}
	// look-alike siblings: two operands of one and/or that differ only in the
	// type of a leaf — (= env dev) next to (= env "dev"), (= n 3) next to
	// (= n "3") — are different operands, whatever they print as
	if g.K.PIll > 0 && r.P(0.04) && d >= 2 {
		var x *Node
		switch r.Intn(3) {
		case 0:
			x = Op(PickS(r, []string{"=", "==", "eq", "!="}), g.Leaf(TStr), g.Leaf(TStr))
		case 1:
			x = Op(PickS(r, []string{"=", "eq", "!=", "ne"}), g.Leaf(TInt), Lit(VI(int64(r.Range(-2, 12)))))
		default:
			x = Op("in", g.Leaf(TInt), g.litOf(TIntList))
		}
		if tw, ok := lookalike(x, r); ok {
			name := PickS(r, []string{"and", "&&", "or", "||", "or"})
			args := []*Node{x, tw, g.Leaf(TBool)}
			if r.P(0.5) {
				args = []*Node{g.Leaf(TBool), x, g.Leaf(TBool), tw}
			}
			if r.P(0.3) {
				args[0], args[len(args)-1] = args[len(args)-1], args[0]
			}
			g.left -= 10
			return Op(name, args...)
		}
	}
	// a range check written as two comparisons of one operand under and/or
	// (what a "between"-style rewrite would key on), bounds often variables
	if r.P(0.03) && d >= 2 {
		v := g.Expr(TInt, 1)
		lo, hi := g.Expr(TInt, 1), g.Expr(TInt, 1)
		ops1 := [][2]string{{">=", "<="}, {"ge", "le"}, {">", "<"}, {"<=", ">="}, {">=", "<"}}[r.Intn(5)]
		a, b := Op(ops1[0], v.Clone(), lo), Op(ops1[1], v.Clone(), hi)
		if r.P(0.2) {
			a, b = b, a
		}
		g.left -= 8
		name := PickS(r, []string{"and", "and", "&", "&&", "or"})
		if r.P(0.3) {
			return Op(name, a, b, g.Leaf(TBool))
		}
		return Op(name, a, b)
	}
	// a built-in applied to the wrong number of operands: an error like any
	// other, raised when (and only if) the application is reached
	if g.K.PIll > 0 && r.P(0.03) {
		g.left -= 4
		switch r.Intn(7) {
		case 0:
			return Op(PickS(r, []string{"not", "!"}), g.args(TBool, []int{0, 2, 3}[r.Intn(3)], 1)...)
		case 1:
			return Op(PickS(r, []string{"gt", ">", "lt", "<=", "ge", "le"}), g.args(TInt, []int{0, 1, 3}[r.Intn(3)], 1)...)
		case 2:
			return Op("between", g.args(TInt, []int{0, 1, 2, 4}[r.Intn(4)], 1)...)
		case 3:
			if r.P(0.5) {
				return Op("in", g.Leaf(TInt))
			}
			return Op("in", g.Leaf(TInt), g.litOf(TIntList), g.litOf(TIntList))
		case 4:
			if r.P(0.5) {
				return Op("overlap", g.Leaf(TIntList))
			}
			return Op("overlap", g.litOf(TIntList), g.Leaf(TIntList), g.litOf(TIntList))
		case 5:
			return Op(PickS(r, []string{"eq", "=", "ne", "!="}), g.args(TInt, []int{0, 1}[r.Intn(2)], 1)...)
		default:
			return Op(PickS(r, []string{"<", ">="}), Op(PickS(r, []string{"add", "-", "*", "/", "mod", "version", "date", "t_date", "td_time", "datetime", "to_version"}), g.args(TInt, []int{0, 1, 3}[r.Intn(3)], 1)...), g.Leaf(TInt))
		}
	}
	// weights: and, or, if, not, xor, cmp, eq, ne, between, in, overlap, custom, fail
	ws := []float64{2 * w, 2 * w, w, 1, 0.5, 2, 2, 1, 0.7, 1, 0.7, 0, 0}
	if len(g.ob[TBool]) > 0 {
		ws[11] = 1.5
	}
	if len(g.fl) > 0 {
		ws[12] = 0.7
	}
	switch pickW(r, ws) {
	case 0:
		return Op(PickS(r, []string{"and", "and", "&", "&&"}), g.boolOperands(d)...)
	case 1:
		return Op(PickS(r, []string{"or", "or", "|", "||"}), g.boolOperands(d)...)
	case 2:
		return g.ifExpr(TBool, d)
	case 3:
		return Op(PickS(r, []string{"not", "!"}), g.arg(TBool, d))
	case 4:
		return Op("xor", g.args(TBool, g.fan(2), d)...)
	case 5:
		return Op(PickS(r, []string{"gt", ">", "lt", "<", "ge", ">=", "le", "<="}), g.arg(TInt, d), g.arg(TInt, d))
	case 6:
		et := []Ty{TInt, TInt, TStr, TBool}[r.Intn(4)]
		n := 2
		if r.P(0.25) {
			n = g.fan(2)
		}
		a := make([]*Node, n)
		for i := range a {
			a[i] = g.scalarArg(et, d)
		}
		return Op(PickS(r, []string{"eq", "=", "=="}), a...)
	case 7:
		et := []Ty{TInt, TStr, TBool}[r.Intn(3)]
		return Op(PickS(r, []string{"ne", "!="}), g.scalarArg(et, d), g.scalarArg(et, d))
	case 8:
		return Op("between", g.arg(TInt, d), g.arg(TInt, d), g.arg(TInt, d))
	case 9:
		if r.P(0.5) {
			lt := TIntList
			if g.K.Sets && r.P(0.3) {
				lt = TIntSet
			}
			return Op("in", g.arg(TInt, d), g.listArg(lt, d))
		}
		lt := TStrList
		if g.K.Sets && r.P(0.3) {
			lt = TStrSet
		}
		return Op("in", g.arg(TStr, d), g.listArg(lt, d))
	case 10:
		lt := []Ty{TIntList, TStrList}[r.Intn(2)]
		return Op("overlap", g.listArg(lt, d), g.listArg(lt, d))
	case 11:
		return g.customCall(g.ob[TBool][r.Intn(len(g.ob[TBool]))], d)
	default:
		return g.customCall(g.fl[r.Intn(len(g.fl))], d)
	}
}

// scalarArg: operand of eq/ne. Mixed scalar types are fine (the comparison is
// simply false); lists are outside the documented semantics of eq/ne.
func (g *Gen) scalarArg(t Ty, d int) *Node {
	if g.R.P(g.K.PIll) {
		for {
			u := g.otherType(t)
			if u == TBool || u == TInt || u == TStr {
				return g.Expr(u, d)
			}
			if !g.K.NoListEq {
				return g.Expr(u, d)
			}
		}
	}
	return g.Expr(t, d)
}

func (g *Gen) listArg(t Ty, d int) *Node {
	if g.R.P(g.K.PIll) {
		return g.Expr(g.otherType(t), d)
	}
	if t == TIntSet || t == TStrSet {
		return g.Leaf(t)
	}
	return g.Expr(t, d)
}

// boolOperands: operands of and/or are boolean-typed or failing (the documented
// domain), never of another type.
func (g *Gen) boolOperands(d int) []*Node {
	n := g.fan(2)
	a := make([]*Node, n)
	for i := range a {
		a[i] = g.Expr(TBool, d)
	}
	return a
}

func (g *Gen) intExpr(d int) *Node {
	r := g.R
	ws := []float64{4, 1, 0.7, 0.7, 0, 1.5}
	if len(g.ob[TInt]) > 0 {
		ws[4] = 1.5
	}
	switch pickW(r, ws) {
	case 0:
		op := PickS(r, []string{"add", "+", "sub", "-", "mul", "*", "div", "/", "mod", "%"})
		return Op(op, g.args(TInt, g.fan(2), d)...)
	case 1: // version
		op := PickS(r, []string{"version", "to_version", "t_version"})
		if r.P(0.4) {
			n := int64(r.Range(1, 4))
			if r.P(0.15) {
				n = int64(r.Range(-1, 6))
			}
			return Op(op, g.versionArg(int(n), d), Lit(VI(n)))
		}
		return Op(op, g.versionArg(3, d))
	case 2: // date family, default layouts
		switch r.Intn(4) {
		case 0:
			return Op(PickS(r, []string{"date", "to_date"}), g.dateArg("2006-01-02", d))
		case 1:
			return Op(PickS(r, []string{"datetime", "to_datetime"}), g.dateArg("2006-01-02 15:04:05", d))
		case 2:
			return Op("td_date", g.dateArg("2006-01-02", d))
		}
		return Op("td_time", g.dateArg("2006-01-02 15:04:05", d))
	case 3: // date family, explicit layout
		l := layoutPool[r.Intn(len(layoutPool))]
		op := PickS(r, []string{"date", "to_date", "datetime", "to_datetime", "t_date", "t_time"})
		return Op(op, g.dateArg(l, d), Lit(VS(l)))
	case 4:
		return g.customCall(g.ob[TInt][r.Intn(len(g.ob[TInt]))], d)
	}
	return g.ifExpr(TInt, d)
}

func (g *Gen) versionArg(n int, d int) *Node {
	r := g.R
	if r.P(0.25) {
		return g.arg(TStr, d)
	}
	if n < 1 || n > 4 {
		n = 3
	}
	k := r.Range(1, n)
	s := ""
	for i := 0; i < k; i++ {
		if i > 0 {
			s += "."
		}
		c := r.Range(0, 30)
		if r.P(0.2) {
			c = r.Range(0, 9999)
		}
		if r.P(0.04) {
			c = r.Range(10000, 20000)
		}
		s += strconv.Itoa(c)
		if r.P(0.03) {
			s += "x"
		}
	}
	return Lit(VS(s))
}

func (g *Gen) dateArg(layout string, d int) *Node {
	r := g.R
	if r.P(0.25) {
		return g.arg(TStr, d)
	}
	Y, M, D := r.Range(1970, 2038), r.Range(1, 12), r.Range(1, 28)
	h, m, s := r.Range(0, 23), r.Range(0, 59), r.Range(0, 59)
	if r.P(0.1) {
		M = r.Range(0, 14)
	}
	if r.P(0.1) {
		D = r.Range(28, 32)
	}
	p2 := func(x int) string {
		if x < 10 {
			return "0" + strconv.Itoa(x)
		}
		return strconv.Itoa(x)
	}
	var out string
	switch layout {
	case "2006-01-02":
		out = strconv.Itoa(Y) + "-" + p2(M) + "-" + p2(D)
	case "2006-01-02 15:04:05":
		out = strconv.Itoa(Y) + "-" + p2(M) + "-" + p2(D) + " " + p2(h) + ":" + p2(m) + ":" + p2(s)
	case "2006/01/02":
		out = strconv.Itoa(Y) + "/" + p2(M) + "/" + p2(D)
	case "20060102":
		out = strconv.Itoa(Y) + p2(M) + p2(D)
	case "2006-01-02T15:04:05Z07:00":
		zone := "Z"
		if r.P(0.7) {
			zone = PickS(r, []string{"+", "-"}) + p2(r.Range(0, 14)) + ":" + PickS(r, []string{"00", "30", "45"})
		}
		out = strconv.Itoa(Y) + "-" + p2(M) + "-" + p2(D) + "T" + p2(h) + ":" + p2(m) + ":" + p2(s) + zone
	default:
		out = p2(D) + "." + p2(M) + "." + strconv.Itoa(Y) + " " + p2(h) + ":" + p2(m)
	}
	return Lit(VS(out))
}

func pickW(r *Rng, ws []float64) int {
	var tot float64
	for _, w := range ws {
		tot += w
	}
	x := float64(r.U64()>>11) / float64(1<<53) * tot
	for i, w := range ws {
		if x < w {
			return i
		}
		x -= w
	}
	return len(ws) - 1
}
