package sim

import (
	"encoding/json"
	"fmt"
	"os"
	"os/exec"
	"path/filepath"
	"runtime"
	"sort"
	"strconv"
	"strings"
	"sync"
	"time"
)

// Exit codes: 0 held on everything explored, 1 violation (a VIOLATION line was
// printed), 2 the harness could not do its job (never a VIOLATION line).

type tierCfg struct {
	Runs     uint64 // run budget (the explored set is a function of seed and tier)
	CapS     int    // wall-clock safety net for the search phase
	DetSeeds int    // determinism self-test sample
	ShrinkS  int
	RaceRuns uint64
}

// budgets per property and tier; sized from measured throughput so that quick
// stays around a minute on 16 cores and thorough around a quarter of an hour.
var budgets = map[string]map[string]tierCfg{
	"C01": {"quick": {Runs: 1000000, CapS: 90, DetSeeds: 32, ShrinkS: 20}, "thorough": {Runs: 16000000, CapS: 1200, DetSeeds: 512, ShrinkS: 60}},
	"C02": {"quick": {Runs: 120000, CapS: 90, DetSeeds: 32, ShrinkS: 20}, "thorough": {Runs: 3000000, CapS: 1200, DetSeeds: 512, ShrinkS: 60}},
	"C03": {"quick": {Runs: 280000, CapS: 90, DetSeeds: 32, ShrinkS: 20}, "thorough": {Runs: 6000000, CapS: 1200, DetSeeds: 512, ShrinkS: 60}},
	"C04": {"quick": {Runs: 300000, CapS: 90, DetSeeds: 32, ShrinkS: 20}, "thorough": {Runs: 6000000, CapS: 1200, DetSeeds: 512, ShrinkS: 60}},
	"C05": {"quick": {Runs: 700000, CapS: 90, DetSeeds: 32, ShrinkS: 20}, "thorough": {Runs: 12000000, CapS: 1200, DetSeeds: 512, ShrinkS: 60}},
	"C06": {"quick": {Runs: 140000, CapS: 90, DetSeeds: 32, ShrinkS: 20}, "thorough": {Runs: 1500000, CapS: 1200, DetSeeds: 512, ShrinkS: 60}},
	"C07": {"quick": {Runs: 50000, CapS: 90, DetSeeds: 32, ShrinkS: 20, RaceRuns: 8000}, "thorough": {Runs: 700000, CapS: 1200, DetSeeds: 512, ShrinkS: 60, RaceRuns: 100000}},
	"C08": {"quick": {Runs: 50000, CapS: 90, DetSeeds: 32, ShrinkS: 20, RaceRuns: 8000}, "thorough": {Runs: 1500000, CapS: 1200, DetSeeds: 512, ShrinkS: 60, RaceRuns: 200000}},
	"C10": {"quick": {Runs: 130000, CapS: 90, DetSeeds: 32, ShrinkS: 20}, "thorough": {Runs: 3000000, CapS: 1200, DetSeeds: 512, ShrinkS: 60}},
	"C11": {"quick": {Runs: 500000, CapS: 90, DetSeeds: 32, ShrinkS: 20}, "thorough": {Runs: 8000000, CapS: 1200, DetSeeds: 512, ShrinkS: 60}},
	"C12": {"quick": {Runs: 600000, CapS: 90, DetSeeds: 32, ShrinkS: 20}, "thorough": {Runs: 12000000, CapS: 1200, DetSeeds: 512, ShrinkS: 60}},
}

func budget(prop, tier string) tierCfg {
	if m, ok := budgets[prop]; ok {
		if c, ok := m[tier]; ok {
			return c
		}
	}
	if tier == "thorough" {
		return tierCfg{Runs: 400000, CapS: 900, DetSeeds: 512, ShrinkS: 60}
	}
	return tierCfg{Runs: 40000, CapS: 75, DetSeeds: 32, ShrinkS: 20}
}

var checkStart = time.Now()

func envInt(name string, def int64) int64 {
	if s := os.Getenv(name); s != "" {
		if v, err := strconv.ParseInt(s, 10, 64); err == nil {
			return v
		}
	}
	return def
}

// verifDir is the root the check runs in: /verif, or a snapshot of it.
var verifDir = func() string {
	if d := os.Getenv("VERIF_DIR"); d != "" {
		return d
	}
	return "/verif"
}()

// DriverMain is the entry point of `check <id> <tier>` and `check replay <path>`.
func DriverMain(args []string) int {
	if len(args) >= 2 && args[0] == "replay" {
		return replayMain(args[1])
	}
	if len(args) < 1 {
		fmt.Println("usage: check <property> [quick|thorough] | check replay <path>")
		return 2
	}
	prop := args[0]
	tier := os.Getenv("VERIF_TIER")
	if len(args) >= 2 {
		tier = args[1]
	}
	if tier != "thorough" {
		tier = "quick"
	}
	if registry[prop] == nil {
		fmt.Printf("unknown property %s (have %v)\n", prop, PropIDs())
		return 2
	}
	seedDefault := int64(20260926)
	if tier == "thorough" {
		seedDefault = 20260927
	}
	base := uint64(envInt("VERIF_SEED", seedDefault))
	cfg := budget(prop, tier)
	if v := envInt("VERIF_RUNS", 0); v > 0 {
		cfg.Runs = uint64(v)
	}
	if v := envInt("VERIF_BUDGET_S", 0); v > 0 {
		cfg.CapS = int(v)
	}
	workers := int(envInt("VERIF_WORKERS", int64(runtime.NumCPU())))
	if workers < 1 {
		workers = 1
	}
	fmt.Printf("VERIF_SEED=%d property=%s tier=%s runs=%d workers=%d\n", base, prop, tier, cfg.Runs, workers)
	t0 := time.Now()
	checkStart = t0

	tmp, err := os.MkdirTemp(filepath.Join(verifDir, "bin"), "run-"+prop+"-")
	if err != nil {
		fmt.Println("cannot create scratch dir:", err)
		return 2
	}
	if os.Getenv("VERIF_KEEP_TMP") == "" {
		defer os.RemoveAll(tmp)
	}

	// 1. determinism self-test
	det, detOK := determinismTest(prop, tier, base, cfg.DetSeeds, tmp)
	if !detOK {
		// Either the harness or the library under test is not deterministic. The
		// search still runs: a violation it finds stands on its own replay file.
		// Without one there is no verdict (exit 2), never a VIOLATION line.
		fmt.Println("determinism self-test diverged: same run indices gave different traces in different processes")
	}

	tDet := time.Since(t0).Seconds()
	// 2. seeded search
	agg, code := search(prop, tier, base, cfg, workers, tmp, os.Getenv("VERIF_SELF"))
	if code != 0 {
		return code
	}
	tSearch := time.Since(t0).Seconds() - tDet
	if hook, ok := extraPhases[prop]; ok {
		if c := hook(prop, tier, base, cfg, workers, tmp, agg); c != 0 {
			return c
		}
	}
	tExtra := time.Since(t0).Seconds() - tDet - tSearch
	fmt.Printf("phases: determinism self-test %.1fs, search %.1fs, extra (race) %.1fs\n", tDet, tSearch, tExtra)
	agg.Extra["phase_wall_s"] = map[string]float64{"determinism_self_test": tDet, "search": tSearch, "race_phase": tExtra}

	// 3. violations: shrink, classify, report
	exit := 0
	kf := LoadKnownFindings()
	seenClass := map[string]int{}
	var reported []map[string]interface{}
	knownHits := map[string]int{}
	sort.SliceStable(agg.Violations, func(i, j int) bool { return agg.Violations[i].Class() < agg.Violations[j].Class() })
	shrinkDeadline := time.Now().Add(time.Duration(cfg.ShrinkS*4) * time.Second)
	for _, v := range agg.Violations {
		if seenClass[v.Class()] >= 2 {
			continue
		}
		seenClass[v.Class()]++
		mv := v // already minimised by the worker that found it (race worlds by the race phase)
		_ = shrinkDeadline
		if f := kf.Match(registry[prop], mv); f != nil {
			if knownHits[f.ID] == 0 {
				fmt.Printf("KNOWN-FINDING: property=%s %s [%s]\n", prop, f.What, f.ID)
			}
			knownHits[f.ID]++
			continue
		}
		path := filepath.Join(outDir(), "replays", fmt.Sprintf("%s-%016x.json", prop, mv.World.Hash()))
		os.MkdirAll(filepath.Dir(path), 0o755)
		if mv.World.Prog != nil {
			mv.World.Src = mv.World.Prog.Src()
		}
		rf := map[string]interface{}{"property": prop, "kind": mv.Kind, "msg": mv.Msg, "world": mv.World, "found_by_seed": v.World.Seed, "base_seed": base}
		if rep := agg.raceOf[v]; rep != "" {
			rf["race_report"] = rep
		}
		b, _ := json.MarshalIndent(rf, "", " ")
		os.WriteFile(path, b, 0o644)
		fmt.Printf("violation class=%s seed=%d\n  %s\n", mv.Class(), v.World.Seed, strings.ReplaceAll(firstLines(mv.Msg, 12), "\n", "\n  "))
		fmt.Printf("VIOLATION property=%s replay=%s\n", prop, path)
		reported = append(reported, map[string]interface{}{"class": mv.Class(), "replay": path})
		exit = 1
	}

	// 4. evidence
	wall := time.Since(t0).Seconds()
	writeEvidence(prop, tier, base, cfg, workers, agg, det, len(reported), knownHits, wall)
	if agg.unconfirmed > 0 && exit == 0 {
		fmt.Println("HARNESS-ERROR: a race report could not be confirmed and the search found no other violation; no verdict")
		exit = 2
	}
	if !detOK && exit == 0 {
		fmt.Println("HARNESS-ERROR: determinism self-test diverged and the search found no violation; no verdict")
		exit = 2
	}
	fmt.Printf("property=%s tier=%s worlds=%d evals=%d distinct=%d nontrivial=%d paths=%d schedules=%d violations=%d known=%d wall=%.1fs\n",
		prop, tier, agg.Stats.Worlds, agg.Stats.Evals, len(agg.sets[0]), len(agg.sets[1]), len(agg.sets[2]), len(agg.sets[3]), len(reported), len(knownHits), wall)
	return exit
}

func firstLines(s string, n int) string {
	l := strings.Split(s, "\n")
	if len(l) > n {
		l = l[:n]
	}
	return strings.Join(l, "\n")
}

// extraPhases lets a property add phases after the main search (e.g. the
// race-detector build for C07/C08).
var extraPhases = map[string]func(prop, tier string, base uint64, cfg tierCfg, workers int, tmp string, agg *Aggregate) int{}

// Aggregate is the merged result of all workers.
type Aggregate struct {
	Stats       *Stats
	sets        [4]map[uint64]struct{}
	Violations  []*Violation
	Runs        uint64
	Completed   bool
	WorkerWall  float64
	raceOf      map[*Violation]string
	Extra       map[string]interface{}
	noShrink    bool
	unconfirmed int // race reports that did not reproduce alone
}

func newAggregate() *Aggregate {
	a := &Aggregate{Stats: NewStats(), Completed: true, raceOf: map[*Violation]string{}, Extra: map[string]interface{}{}}
	for i := range a.sets {
		a.sets[i] = map[uint64]struct{}{}
	}
	return a
}

func (a *Aggregate) merge(r *WorkerResult) {
	s := r.Stats
	a.Stats.Worlds += s.Worlds
	a.Stats.Evals += s.Evals
	a.Stats.Skipped += s.Skipped
	a.Stats.Steps += s.Steps
	a.Stats.Ticks += s.Ticks
	for k, v := range s.Faults {
		a.Stats.Faults[k] += v
	}
	for k, v := range s.Probes {
		a.Stats.Probes[k] += v
	}
	for _, x := range s.Samples {
		if len(a.Stats.Samples) < 6 {
			a.Stats.Samples = append(a.Stats.Samples, x)
		}
	}
	a.Violations = append(a.Violations, r.Violations...)
	a.Runs += r.Runs
	if !r.Completed {
		a.Completed = false
	}
	if r.WallS > a.WorkerWall {
		a.WorkerWall = r.WallS
	}
}

var errRace = fmt.Errorf("race detector report")

func exitCode(err error) int {
	if err == nil {
		return 0
	}
	if ee, ok := err.(*exec.ExitError); ok {
		return ee.ExitCode()
	}
	return -1
}

func selfBinary(override string) string {
	if override != "" {
		return override
	}
	exe, err := os.Executable()
	if err != nil {
		return os.Args[0]
	}
	return exe
}

// spawn runs one worker process and returns its result.
func spawn(bin string, spec WorkerSpec, gomaxprocs int, extraEnv []string, sets [4]map[uint64]struct{}, mu *sync.Mutex) (*WorkerResult, string, error) {
	sb, _ := json.Marshal(spec)
	cmd := exec.Command(bin, "-test.run", "^TestWorker$", "-test.timeout", "0", "-test.count", "1")
	cmd.Env = append(os.Environ(), "VERIF_ROLE=worker", "VERIF_WORKER_SPEC="+string(sb))
	if gomaxprocs > 0 {
		cmd.Env = append(cmd.Env, "GOMAXPROCS="+strconv.Itoa(gomaxprocs))
	}
	cmd.Env = append(cmd.Env, extraEnv...)
	out, err := cmd.CombinedOutput()
	if mu != nil {
		mu.Lock()
		defer mu.Unlock()
	}
	if code := exitCode(err); code == 66 {
		// the race detector halted the worker
		return nil, string(out), errRace
	}
	res, rerr := ReadResult(spec.Out, sets)
	if rerr != nil {
		return nil, string(out), fmt.Errorf("worker produced no result (%v, exit %v)", rerr, err)
	}
	return res, string(out), nil
}

func search(prop, tier string, base uint64, cfg tierCfg, workers int, tmp string, binOverride string) (*Aggregate, int) {
	agg := newAggregate()
	bin := selfBinary(binOverride)
	deadline := time.Now().Add(time.Duration(cfg.CapS) * time.Second).UnixMilli()
	var wg sync.WaitGroup
	var mu sync.Mutex
	fail := ""
	var hangs []*World
	for wi := 0; wi < workers; wi++ {
		cnt := cfg.Runs / uint64(workers)
		if uint64(wi) < cfg.Runs%uint64(workers) {
			cnt++
		}
		spec := WorkerSpec{Prop: prop, Tier: tier, Base: base, Start: uint64(wi), Stride: uint64(workers), Count: cnt,
			Deadline: deadline, Out: filepath.Join(tmp, fmt.Sprintf("w%d.json", wi)), ShrinkS: cfg.ShrinkS / 2}
		wg.Add(1)
		go func() {
			defer wg.Done()
			res, out, err := spawn(bin, spec, 1, nil, agg.sets, &mu)
			mu.Lock()
			defer mu.Unlock()
			if err != nil {
				fail = fmt.Sprintf("%v\n%s", err, out)
				return
			}
			if res.Crash != "" {
				fail = res.Crash
				return
			}
			if res.Hang != nil {
				hangs = append(hangs, res.Hang)
				return
			}
			agg.merge(res)
		}()
	}
	wg.Wait()
	if fail != "" {
		if p := os.Getenv("VERIF_DEBUG_OUT"); p != "" {
			os.WriteFile(p, []byte(fail), 0o644)
		}
		fmt.Println("HARNESS-ERROR:", firstLines(fail, 40))
		return agg, 2
	}
	for i, hw := range hangs {
		if i >= 2 {
			break // two confirmed hangs are report enough; each confirmation costs 20 s
		}
		// a suspected hang counts only if it reproduces alone in a fresh process
		path := filepath.Join(tmp, fmt.Sprintf("hang%d.json", i))
		b, _ := json.Marshal(map[string]interface{}{"property": prop, "kind": "hang", "world": hw})
		os.WriteFile(path, b, 0o644)
		spec := WorkerSpec{Prop: prop, Tier: tier, Base: base, Count: 1, Stride: 1, Replay: path, Out: filepath.Join(tmp, fmt.Sprintf("hang%d.out.json", i))}
		var sets [4]map[uint64]struct{}
		for k := range sets {
			sets[k] = map[uint64]struct{}{}
		}
		res, out, err := spawn(bin, spec, 1, nil, sets, nil)
		if err == nil && res.Hang != nil {
			agg.Violations = append(agg.Violations, &Violation{Prop: prop, Kind: "hang", Msg: "a call into the library did not return (no progress for 20 s while burning CPU, or for 120 s blocked; reproduced alone in a fresh process)", World: hw})
			agg.noShrink = true
			continue
		}
		// not a hang: the run finishes when repeated alone (a slow run on a loaded
		// machine). The worker was stopped, so the rest of its share was not
		// explored; that is reported, never turned into a verdict.
		_ = out
		fmt.Printf("NOTE: a worker was stopped as a suspected hang, but the run finishes when repeated alone (err=%v); the rest of that worker's share of this batch was not explored\n", err)
		agg.Stats.Probes["worker_stopped_on_unconfirmed_hang"]++
	}
	return agg, 0
}

// DetReport is the outcome of the determinism self-test.
type DetReport struct {
	Seeds     int   `json:"seeds"`
	Processes int   `json:"processes"`
	Procs     []int `json:"gomaxprocs"`
	Diverged  int   `json:"diverged"`
}

// determinismTest runs the first n run indices in three separate processes at
// GOMAXPROCS 1, 4 and 16 and compares the per-run trace hashes (seam calls,
// scheduler choices, events, results).
func determinismTest(prop, tier string, base uint64, n int, tmp string) (DetReport, bool) {
	rep := DetReport{Seeds: n, Procs: []int{1, 4, 16}}
	bin := selfBinary(os.Getenv("VERIF_SELF"))
	type r struct {
		res *WorkerResult
		err error
		out string
	}
	results := make([]r, len(rep.Procs))
	var wg sync.WaitGroup
	for i, gmp := range rep.Procs {
		i, gmp := i, gmp
		spec := WorkerSpec{Prop: prop, Tier: tier, Base: base, Start: 0, Stride: 1, Count: uint64(n), Trace: true,
			Out: filepath.Join(tmp, fmt.Sprintf("det%d.json", i))}
		wg.Add(1)
		go func() {
			defer wg.Done()
			var sets [4]map[uint64]struct{}
			for k := range sets {
				sets[k] = map[uint64]struct{}{}
			}
			res, out, err := spawn(bin, spec, gmp, nil, sets, nil)
			results[i] = r{res, err, out}
		}()
	}
	wg.Wait()
	rep.Processes = len(rep.Procs)
	for i := range results {
		if results[i].err != nil {
			fmt.Println("determinism self-test: worker failed:", results[i].err, firstLines(results[i].out, 30))
			return rep, false
		}
		if results[i].res.Crash != "" {
			fmt.Println("determinism self-test: worker crashed:", firstLines(results[i].res.Crash, 30))
			return rep, false
		}
	}
	ref := results[0].res
	for i := 1; i < len(results); i++ {
		for k, h := range ref.Traces {
			if results[i].res.Traces[k] != h {
				rep.Diverged++
				fmt.Printf("determinism self-test: run %s differs between GOMAXPROCS=%d (%s) and %d (%s)\n", k, rep.Procs[0], h, rep.Procs[i], results[i].res.Traces[k])
				a, b := ref.TraceLogs[k], results[i].res.TraceLogs[k]
				for j := 0; j < len(a) || j < len(b); j++ {
					var x, y string
					if j < len(a) {
						x = a[j]
					}
					if j < len(b) {
						y = b[j]
					}
					if x != y {
						fmt.Printf("  first difference at event %d:\n   %s\n   %s\n", j, x, y)
						break
					}
				}
			}
		}
	}
	return rep, rep.Diverged == 0
}

func replayMain(path string) int {
	b, err := os.ReadFile(path)
	if err != nil {
		fmt.Println("cannot read replay file:", err)
		return 2
	}
	var rf struct {
		Property string `json:"property"`
		Kind     string `json:"kind"`
		World    *World `json:"world"`
	}
	if err := json.Unmarshal(b, &rf); err != nil || rf.World == nil {
		fmt.Println("bad replay file:", err)
		return 2
	}
	p := registry[rf.Property]
	if p == nil {
		fmt.Println("unknown property", rf.Property)
		return 2
	}
	if hook, ok := replayHooks[rf.Property]; ok {
		if code, handled := hook(path, rf.World, rf.Kind); handled {
			return code
		}
	}
	if rf.Kind == "hang" {
		// a hang cannot be replayed in-process: run it in a worker under the watchdog
		tmp, err := os.MkdirTemp(filepath.Join(verifDir, "bin"), "replay-")
		if err != nil {
			fmt.Println("cannot create scratch dir:", err)
			return 2
		}
		defer os.RemoveAll(tmp)
		spec := WorkerSpec{Prop: rf.Property, Count: 1, Stride: 1, Replay: path, Out: filepath.Join(tmp, "out.json")}
		sets := [4]map[uint64]struct{}{{}, {}, {}, {}}
		res, out, err := spawn(selfBinary(os.Getenv("VERIF_SELF")), spec, 1, nil, sets, nil)
		if err == nil && res.Hang != nil {
			fmt.Println("replay: the call did not return (20 s busy or 120 s blocked)")
			fmt.Printf("VIOLATION property=%s replay=%s\n", rf.Property, path)
			return 1
		}
		if err != nil {
			fmt.Println("replay: worker trouble:", err, firstLines(out, 20))
			return 2
		}
		fmt.Println("replay: no hang")
		return 0
	}
	// multi-task worlds need the worker's *testing.T (synctest): run them in a worker
	if workerT == nil && (len(rf.World.Tasks) > 0 || rf.World.Extra["bubble"] == "1") {
		tmp, err := os.MkdirTemp(filepath.Join(verifDir, "bin"), "replay-")
		if err != nil {
			fmt.Println("cannot create scratch dir:", err)
			return 2
		}
		defer os.RemoveAll(tmp)
		spec := WorkerSpec{Prop: rf.Property, Count: 1, Stride: 1, Replay: path, Trace: true, Out: filepath.Join(tmp, "out.json")}
		sets := [4]map[uint64]struct{}{{}, {}, {}, {}}
		res, out, err := spawn(selfBinary(os.Getenv("VERIF_SELF")), spec, 1, nil, sets, nil)
		if err != nil || res.Crash != "" {
			fmt.Println("replay: worker trouble:", err, firstLines(out, 20))
			return 2
		}
		for _, l := range res.TraceLogs["0"] {
			fmt.Println("  ", l)
		}
		if len(res.Violations) == 0 {
			fmt.Printf("replay: no violation (recorded class %s/%s)\n", rf.Property, rf.Kind)
			return 0
		}
		v := res.Violations[0]
		fmt.Printf("replay: %s\n  %s\n", v.Class(), strings.ReplaceAll(firstLines(v.Msg, 30), "\n", "\n  "))
		fmt.Printf("VIOLATION property=%s replay=%s\n", rf.Property, path)
		return 1
	}
	st := NewStats()
	st.Tracing = true
	v := p.Run(rf.World, st)
	for _, l := range st.TraceLog {
		fmt.Println("  ", l)
	}
	if v == nil {
		fmt.Printf("replay: no violation (recorded class %s/%s)\n", rf.Property, rf.Kind)
		return 0
	}
	fmt.Printf("replay: %s\n  %s\n", v.Class(), strings.ReplaceAll(firstLines(v.Msg, 30), "\n", "\n  "))
	fmt.Printf("VIOLATION property=%s replay=%s\n", rf.Property, path)
	return 1
}

var replayHooks = map[string]func(path string, w *World, kind string) (int, bool){}
