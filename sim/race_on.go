//go:build race

package sim

const raceBuild = true
