package sim

import (
	"errors"
	"fmt"

	"github.com/onheap/eval"
)

// RefRun is one run of a reference interpreter.
type RefRun struct {
	Val interface{}
	Err error
	Env *Env
}

// RefL2R runs the left-to-right reference on tree under plan p.
func RefL2R(cfg *CfgSpec, ops map[string]*OpSpec, tree *Node, p *Plan) RefRun {
	env := NewEnv(ops, p)
	it := &Interp{Consts: cfg.ConstVals(), Env: env}
	v, err := it.L2R(tree)
	return RefRun{Val: v, Err: err, Env: env}
}

// narrowed returns a copy of w reduced to the single concrete call p.
func narrowed(w *World, p *Plan) *World {
	c := w.Clone()
	c.Calls = []Plan{p.Clone()}
	c.EnumFaults = false
	c.EnumSplits = false
	return c
}

// compareResult judges the engine's (value, error) against the reference's for
// one call. It implements C01's two sentences: the value is exactly the
// documented one; an error is returned exactly when evaluation raises one, and
// it is the very error the fetcher or operator returned.
//
// alignedSites says whether engine and reference number their seam calls alike
// (true when the engine is expected to perform exactly the reference's calls).
func compareResult(w *World, p *Plan, ref RefRun, out *Outcome, alignedSites bool) *Violation {
	if out.Panic != nil && !out.Abort {
		return viol(narrowed(w, p), "panic", "engine panicked: %v\n%s", out.Panic, out.Stack)
	}
	if ref.Err == nil {
		want := ref.Val
		if p.Kind == "evalbool" {
			if _, ok := want.(bool); !ok {
				// EvalBool's own contract: a non-boolean result is an error
				if out.Err == nil {
					return viol(narrowed(w, p), "evalbool-nonbool", "EvalBool returned (%v, nil) for non-boolean value %s", out.Val, ValStr(want))
				}
				return nil
			}
		}
		if out.Err != nil {
			return viol(narrowed(w, p), "spurious-error", "reference value %s, engine error %v", ValStr(ref.Val), out.Err)
		}
		if !ValEq(out.Val, want) {
			return viol(narrowed(w, p), "value-mismatch", "reference %s, engine %s", ValStr(want), ValStr(out.Val))
		}
		return nil
	}
	if out.Err == nil {
		return viol(narrowed(w, p), "missing-error", "reference fails with %v, engine returned value %s", ref.Err, ValStr(out.Val))
	}
	var rse *SimErr
	if errors.As(ref.Err, &rse) {
		// the very error object the engine-side fetcher/operator returned
		var want *SimErr
		for i := range out.Env.Log {
			if e := out.Env.Log[i].Err; e != nil {
				if alignedSites && e.Site == rse.Site {
					want = e
				}
				if !alignedSites && e.Kind == rse.Kind && e.What == rse.What && want == nil {
					want = e
				}
			}
		}
		if want == nil {
			return viol(narrowed(w, p), "wrong-error", "reference fails with seam error %v; the engine-side seam raised no such error, engine returned %v", rse, out.Err)
		}
		if want.Kind != rse.Kind || want.What != rse.What {
			return viol(narrowed(w, p), "wrong-error", "reference fails with %v, engine-side seam error at that site is %v", rse, want)
		}
		if !errors.Is(out.Err, want) {
			return viol(narrowed(w, p), "error-identity", "engine returned %v, which is not (and does not wrap) the seam's error %v", out.Err, want)
		}
		if w.Prop == "C01" && out.Err != error(want) {
			// C01: "the error is the very one the fetcher or operator returned" —
			// the object itself, not a new error that wraps or re-words it (a
			// caller comparing with == or switching on the concrete type sees the
			// difference)
			return viol(narrowed(w, p), "error-identity", "engine returned %v (%T), which wraps the seam's error %v instead of being it", out.Err, out.Err, want)
		}
		if other := chainHasOtherSentinel(out.Err, want); other != nil {
			return viol(narrowed(w, p), "error-identity", "engine error %v also carries another seam error %v", out.Err, other)
		}
		return nil
	}
	// reference raised a built-in failure: any non-seam error will do
	var ese *SimErr
	if errors.As(out.Err, &ese) {
		return viol(narrowed(w, p), "wrong-error", "reference fails in a built-in (%v), engine returned seam error %v", ref.Err, ese)
	}
	return nil
}

// checkLoopEvents is the forward-progress monitor (C06, C12): LOOP events of
// one call report strictly increasing positions, and there are at most
// nodeCount of them.
func checkLoopEvents(evs []eval.Event, nodeCount int) (string, bool) {
	prev := int16(-1)
	loops := 0
	for _, ev := range evs {
		if ev.EventType != eval.LoopEvent {
			continue
		}
		d, ok := ev.Data.(eval.LoopEventData)
		if !ok {
			return fmt.Sprintf("LOOP event carries %T", ev.Data), false
		}
		loops++
		if !raceBuild && prev >= 0 {
			// reach probe: a jump over more than 127 / 255 program positions
			if gap := int(d.CurtIdx) - int(prev); gap > 255 {
				longJumps[1]++
			} else if gap > 127 {
				longJumps[0]++
			}
		}
		if d.CurtIdx <= prev {
			return fmt.Sprintf("LOOP position %d after %d", d.CurtIdx, prev), false
		}
		prev = d.CurtIdx
	}
	if nodeCount > 0 && loops > nodeCount {
		return fmt.Sprintf("%d LOOP events for a program of %d nodes", loops, nodeCount), false
	}
	return "", true
}

// longJumps counts LOOP position gaps over 127 and over 255 (reach probes,
// copied into the worker's Stats at the end; not touched in the race build).
var longJumps [2]int64

func pathHash(out *Outcome) uint64 {
	h := uint64(0xcbf29ce484222325)
	for _, c := range out.Env.Log {
		h = (h ^ hash64(c.Kind+c.Name)) * 0x100000001b3
	}
	for _, ev := range out.Events {
		if d, ok := ev.Data.(eval.LoopEventData); ok {
			h = (h ^ uint64(d.CurtIdx)) * 0x100000001b3
		}
	}
	return (h ^ hash64(out.Class())) * 0x100000001b3
}

func hasControl(n *Node) bool {
	found := false
	n.Walk(func(x *Node) {
		if x.K == KIf || x.IsAnd() || x.IsOr() {
			found = true
		}
	})
	return found
}
