package sim

import (
	"encoding/binary"
	"encoding/json"
	"fmt"
	"os"
	"runtime/debug"
	"strconv"
	"strings"
	"sync/atomic"
	"syscall"
	"time"
)

// WorkerSpec is what the driver hands to one worker process (JSON in the
// VERIF_WORKER_SPEC environment variable).
type WorkerSpec struct {
	Prop     string `json:"prop"`
	Tier     string `json:"tier"`
	Base     uint64 `json:"base"`             // base seed (VERIF_SEED)
	Start    uint64 `json:"start"`            // first run index of this worker
	Stride   uint64 `json:"stride"`           // distance between its run indices
	Count    uint64 `json:"count"`            // number of runs it owns
	Deadline int64  `json:"deadline_unix_ms"` // safety net only
	Out      string `json:"out"`
	Trace    bool   `json:"trace"` // determinism self-test: record a trace hash per run
	MaxViol  int    `json:"max_viol"`
	ShrinkS  int    `json:"shrink_s"`         // per-violation minimisation budget
	Replay   string `json:"replay,omitempty"` // run exactly this world file instead of generating
}

// WorkerResult is what a worker writes back.
type WorkerResult struct {
	Spec       WorkerSpec          `json:"spec"`
	Stats      *Stats              `json:"stats"`
	Runs       uint64              `json:"runs"`
	Completed  bool                `json:"completed"` // ran its whole quota (not stopped by the deadline)
	Violations []*Violation        `json:"violations"`
	Traces     map[string]string   `json:"traces,omitempty"` // run index -> trace hash
	TraceLogs  map[string][]string `json:"trace_logs,omitempty"`
	WallS      float64             `json:"wall_s"`
	Crash      string              `json:"crash,omitempty"`
	Hang       *World              `json:"hang,omitempty"` // the world that was running when the watchdog fired
}

var hangLimitMs = int64(20000)

// A run counts as hung when it has made no progress for hangLimitMs of wall
// time AND this process has burnt at least 3/4 of that in CPU since (a busy
// loop), or when it has made no progress for six times as long whatever the
// CPU use (a blocked call). On a loaded machine a slow but live run does
// neither.
func cpuMillis() int64 {
	var ru syscall.Rusage
	if syscall.Getrusage(syscall.RUSAGE_SELF, &ru) != nil {
		return 0
	}
	return (ru.Utime.Sec+ru.Stime.Sec)*1000 + int64(ru.Utime.Usec+ru.Stime.Usec)/1000
}

var curCPU atomic.Int64

func markStart(start *atomic.Int64) {
	curCPU.Store(cpuMillis())
	start.Store(time.Now().UnixMilli())
}

// shrinking / shrinkTick let the watchdog cover minimisation too: every
// candidate run restarts the clock, and a candidate that never returns ends
// the worker instead of hanging the check.
var shrinking atomic.Bool
var shrinkTick = func() {}

// LoadWorldFromReplay reads the world out of a replay file.
func LoadWorldFromReplay(path string) (*World, error) {
	b, err := os.ReadFile(path)
	if err != nil {
		return nil, err
	}
	var rf struct {
		World *World `json:"world"`
	}
	if err := json.Unmarshal(b, &rf); err != nil || rf.World == nil {
		return nil, fmt.Errorf("bad replay file %s: %v", path, err)
	}
	return rf.World, nil
}

// RunWorker executes a worker spec in this process.
func RunWorker(spec WorkerSpec) *WorkerResult {
	res := &WorkerResult{Spec: spec, Stats: NewStats(), Traces: map[string]string{}, TraceLogs: map[string][]string{}}
	p := registry[spec.Prop]
	if p == nil {
		res.Crash = "unknown property " + spec.Prop
		return res
	}
	t0 := time.Now()
	deepTier = spec.Tier == "thorough"
	st := res.Stats
	st.Tracing = spec.Trace
	if spec.MaxViol == 0 {
		spec.MaxViol = 8
	}
	classes := map[string]int{}
	// Watchdog: the one place a real clock influences anything. A run that
	// makes no progress (see cpuMillis above for the rule) is recorded as a suspected hang; the driver
	// re-runs that world alone and only a hang that reproduces is reported.
	var curWorld atomic.Pointer[World]
	var curStart atomic.Int64
	stopWatch := make(chan struct{})
	defer close(stopWatch)
	go func() {
		for {
			select {
			case <-stopWatch:
				return
			case <-time.After(time.Second):
			}
			s := curStart.Load()
			wall := time.Now().UnixMilli() - s
			if s != 0 && wall > hangLimitMs && (cpuMillis()-curCPU.Load() > hangLimitMs*3/4 || wall > 6*hangLimitMs) {
				if shrinking.Load() {
					// a shrink candidate does not return: keep what was found
					// (the un-minimised violation is already in the result) and stop
					// this worker; its remaining runs are simply not done
					res.Stats = NewStats()
					res.Stats.Probes["shrink_candidate_hung"] = 1
					res.Completed = false
					WriteResult(res)
					os.Exit(0)
				}
				res.Hang = curWorld.Load()
				res.Stats = NewStats() // the live one is being written by the stuck run
				WriteResult(res)
				os.Exit(3)
			}
		}
	}()
	for n := uint64(0); n < spec.Count; n++ {
		if spec.Deadline > 0 && n%16 == 0 && time.Now().UnixMilli() > spec.Deadline {
			break
		}
		idx := spec.Start + n*spec.Stride
		seed := Mix64(spec.Base, spec.Prop, idx)
		var v *Violation
		func() {
			var w *World
			defer func() {
				if r := recover(); r != nil {
					stack := string(debug.Stack())
					if tp, ok := r.(taskPanic); ok {
						r, stack = tp.Val, tp.Stack
					}
					if w != nil && strings.Contains(stack, "github.com/onheap/eval.") {
						// Backstop for "every call into the library is wrapped in
						// recover": a panic that unwound through library frames and
						// reached the worker is reported against the running
						// property, whichever harness site failed to catch it. (It is
						// not minimised: the site that missed it would miss it again.)
						v = viol(w, "panic-unrecovered", "a call into the library panicked and nothing on the way recovered it: %v\n%s", r, trimStack(stack))
						return
					}
					res.Crash = fmt.Sprintf("harness panic at run %d seed %d: %v\n%s", idx, seed, r, stack)
				}
			}()
			if spec.Replay != "" {
				lw, err := LoadWorldFromReplay(spec.Replay)
				if err != nil {
					panic(err)
				}
				w = lw
			} else {
				w = p.Gen(NewRng(seed), spec.Tier)
				w.Seed = seed
			}
			if raceBuild {
				// the race detector halts the process on a report: leave the
				// world that is running where the driver can find it
				os.WriteFile(spec.Out+".cur.tmp", w.JSON(), 0o644)
				os.Rename(spec.Out+".cur.tmp", spec.Out+".cur")
			}
			shapeProbes(w, st)
			curWorld.Store(w.Clone())
			markStart(&curStart)
			defer curStart.Store(0)
			st.trace = 0
			st.TraceLog = nil
			st.Worlds++
			v = p.Run(w, st)
		}()
		if res.Crash != "" {
			return res
		}
		res.Runs++
		if spec.Trace {
			key := strconv.FormatUint(idx, 10)
			vk := "ok"
			if v != nil {
				vk = v.Class()
			}
			res.Traces[key] = fmt.Sprintf("%016x/%s", st.trace, vk)
			res.TraceLogs[key] = st.TraceLog
		}
		if v != nil {
			if classes[v.Class()] < 2 && len(res.Violations) < spec.MaxViol {
				// minimise here, where a *testing.T exists for the bubble engine.
				// The un-minimised violation is recorded first: if a shrink
				// candidate hangs, the watchdog ends this worker and it survives.
				res.Violations = append(res.Violations, v)
				if v.Kind != "hang" && v.Kind != "panic-unrecovered" && spec.ShrinkS > 0 {
					found := v.World.Seed
					// what has been found so far goes to disk first: a shrink candidate
					// may kill the process outright (a fatal runtime error inside
					// the library is not recoverable), and the finding must survive
					WriteResult(res)
					shrinking.Store(true)
					shrinkTick = func() { markStart(&curStart) }
					shrinkTick()
					mv := Shrink(p, v, time.Duration(spec.ShrinkS)*time.Second)
					shrinking.Store(false)
					mv.World.Seed = found
					res.Violations[len(res.Violations)-1] = mv
				}
				curStart.Store(0)
			}
			classes[v.Class()]++
			st.Probes["violations_seen"]++
		}
		if n == spec.Count-1 {
			res.Completed = true
		}
	}
	if spec.Count == 0 {
		res.Completed = true
	}
	if longJumps[0] > 0 {
		st.Probes["loop_jump_over_127_positions"] += longJumps[0]
	}
	if longJumps[1] > 0 {
		st.Probes["loop_jump_over_255_positions"] += longJumps[1]
	}
	res.WallS = time.Since(t0).Seconds()
	return res
}

// WriteResult stores a worker result: JSON plus a binary side file with the
// hash sets (64-bit hashes do not survive JSON numbers).
func WriteResult(res *WorkerResult) error {
	b, err := json.Marshal(res)
	if err != nil {
		return err
	}
	if err := os.WriteFile(res.Spec.Out, b, 0o644); err != nil {
		return err
	}
	f, err := os.Create(res.Spec.Out + ".sets")
	if err != nil {
		return err
	}
	defer f.Close()
	for _, set := range []map[uint64]struct{}{res.Stats.worlds, res.Stats.nontriv, res.Stats.paths, res.Stats.scheds} {
		keys := setKeys(set)
		buf := make([]byte, 8+8*len(keys))
		binary.LittleEndian.PutUint64(buf, uint64(len(keys)))
		for i, k := range keys {
			binary.LittleEndian.PutUint64(buf[8+8*i:], k)
		}
		if _, err := f.Write(buf); err != nil {
			return err
		}
	}
	return nil
}

// ReadResult loads a worker result and merges its hash sets into the four
// given sets.
func ReadResult(path string, sets [4]map[uint64]struct{}) (*WorkerResult, error) {
	b, err := os.ReadFile(path)
	if err != nil {
		return nil, err
	}
	var res WorkerResult
	if err := json.Unmarshal(b, &res); err != nil {
		return nil, err
	}
	sb, err := os.ReadFile(path + ".sets")
	if err != nil {
		return nil, err
	}
	off := 0
	for i := 0; i < 4; i++ {
		if off+8 > len(sb) {
			return nil, fmt.Errorf("short sets file")
		}
		n := int(binary.LittleEndian.Uint64(sb[off:]))
		off += 8
		for k := 0; k < n; k++ {
			sets[i][binary.LittleEndian.Uint64(sb[off:])] = struct{}{}
			off += 8
		}
	}
	return &res, nil
}

// shapeProbes counts, per world, the size class of its largest program (source
// nodes; event mode doubles them in the flat program) and its nesting depth:
// the widths the engine stores positions and jump targets in make 127/255
// nodes and the 8/16-slot operand stacks the boundaries worth reaching.
func shapeProbes(w *World, st *Stats) {
	max, depth := 0, 0
	see := func(n *Node) {
		if n == nil {
			return
		}
		if s := n.Size(); s > max {
			max = s
		}
		if d := n.Depth(); d > depth {
			depth = d
		}
	}
	see(w.Prog)
	for _, p := range w.Progs {
		see(p)
	}
	switch {
	case max > 1000:
		st.Probe("program_nodes_over_1000")
	case max > 255:
		st.Probe("program_nodes_256_1000")
	case max > 127:
		st.Probe("program_nodes_128_255")
	case max > 32:
		st.Probe("program_nodes_33_127")
	}
	if depth >= 9 {
		st.Probe("program_depth_9_or_more")
	}
}
