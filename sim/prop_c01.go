package sim

import (
	"fmt"
	"runtime/debug"

	"github.com/onheap/eval"
)

// C01 — Eval computes the documented left-to-right short-circuit semantics.
//
// Simulated system: one request task evaluating one rule compiled with all
// four optimisations off, against the simulated variable store and user
// operators. Faults: fault-free run, then every seam call failed once
// (every-point enumeration), then random multi-fault plans.
// Oracle: the L2R reference interpreter under the same plan.
type propC01 struct{}

func init() {
	Register(propC01{})
	meta["C01"] = propMeta{
		Rule: "A case is one world: a typed program generated from the run's seed (all built-ins and aliases, if, literals of five types, constants, registered/undefined-mode variables under seven key layouts, user operators), a configuration (options or directive route, event mode, entry point Eval/EvalBool/eval.Eval) and its calls (1-3 bindings, optional every-point single-fault enumeration, 0-2 random multi-fault plans). evaluations = calls into the library. distinct = distinct world hashes; non-trivial = distinct worlds whose program contains and/or/if and whose fault-free run makes at least two seam calls.",
		Assumptions: []string{
			"reference interpreter and built-in model are hand-written from the README and the property statement; they were validated against the unchanged tree and every disagreement triaged (one genuine defect, fixed)",
			"domain: and/or operands boolean-typed or failing, eq/ne operands scalar, date layouts from a fixed pool, versions with at most N components; runs that leave it are skipped and counted (comparisons_skipped_out_of_domain)",
			"built-in errors are compared by class (an error that is none of the seam sentinels), never by message",
			"sampling: a clean batch is evidence, not proof",
		},
		Engines:    []string{"INLINE"},
		FaultKinds: []string{"get_error", "get_unbound", "op_error", "cancel_from", "buffer_reuse"},
	}
}

func (propC01) ID() string { return "C01" }

// randomFaultPlan draws a multi-fault plan for a run known to make n seam calls.
func randomFaultPlan(r *Rng, base *Plan, n int) Plan {
	p := base.Clone()
	if n == 0 {
		return p
	}
	switch r.Intn(3) {
	case 0: // several independent failures
		k := r.Range(1, 3)
		for i := 0; i < k; i++ {
			p.FailAt = append(p.FailAt, r.Intn(n))
		}
	case 1: // the request is cancelled from some point on
		p.CancelFrom = r.Intn(n) + 1
	case 2: // a variable disappears from the binding
		names := sortedKeys(p.Bind)
		if len(names) > 0 {
			delete(p.Bind, names[r.Intn(len(names))])
		} else {
			p.FailAt = append(p.FailAt, r.Intn(n))
		}
	}
	return p
}

func (propC01) Gen(r *Rng, tier string) *World {
	k := DrawKnobs(r)
	if r.P(0.5) {
		k.FailOp = true
	}
	k.RawConsts = r.P(0.3)
	k.TupleOp = r.P(0.3)
	g := NewGen(r, k)
	w := &World{Prop: "C01", Cfg: g.C}
	w.Prog = g.Program()
	w.Cfg = g.C
	w.Cfg.OptMask = 0
	w.Cfg.ViaDirect = r.P(0.5)
	w.Cfg.DirStyle = r.Intn(8)
	w.Cfg.ViaAPI = r.P(0.4)
	w.Cfg.Event = []string{"", "", "", "report", "debug", "both"}[r.Intn(6)]
	w.API = []string{"eval", "eval", "eval", "eval", "evalbool", "oneshot"}[r.Intn(6)]
	base := Plan{Bind: g.Binding(), CtxDone: r.P(0.1)}
	if w.API != "oneshot" && len(referencedVars(w.Prog)) == 0 && r.P(0.4) {
		base.NilCtx, base.CtxDone = true, false // no variable to read: the caller may pass no Ctx at all
	}
	w.Calls = append(w.Calls, base)
	nb := r.Intn(3)
	for i := 0; i < nb; i++ { // further bindings
		w.Calls = append(w.Calls, Plan{Bind: g.Binding()})
	}
	if r.P(0.06) {
		// a caller that keeps one buffer per list variable and refills it for
		// every request: same backing array, same length, new contents
		w.Extra = map[string]string{"reuse_buffers": "1"}
		for i, n := 0, r.Range(1, 3); i < n; i++ {
			q := w.Calls[len(w.Calls)-1].Clone()
			for _, name := range sortedKeys(q.Bind) {
				v := q.Bind[name]
				switch v.T {
				case "il":
					v.IL = append([]int64(nil), v.IL...)
					for j := range v.IL {
						v.IL[j] = intPool[r.Intn(len(intPool))]
					}
				case "sl":
					v.SL = append([]string(nil), v.SL...)
					for j := range v.SL {
						v.SL[j] = strPlain[r.Intn(len(strPlain))]
					}
				}
				q.Bind[name] = v
			}
			w.Calls = append(w.Calls, q)
		}
	}
	if w.API != "oneshot" && r.P(0.2) {
		// a fetcher with a cold cache (Cached says no, Get loads): evaluation
		// does not depend on what is cached
		for i := range w.Calls {
			for _, v := range w.Cfg.Vars {
				if r.P(0.4) {
					w.Calls[i].Unavail = append(w.Calls[i].Unavail, v.Name)
				}
			}
		}
	}
	w.EnumFaults = r.P(0.6)
	// random multi-fault plans: their fault positions are drawn against an
	// estimate of the call count; positions beyond the actual count never fire
	nf := r.Intn(3)
	for i := 0; i < nf; i++ {
		w.Calls = append(w.Calls, randomFaultPlan(r, &base, 1+r.Intn(12)))
	}
	return w
}

func (pr propC01) Run(w *World, st *Stats) *Violation {
	ops := SpecMap(w.Cfg.Ops)
	if w.API == "oneshot" {
		return pr.runOneShot(w, st, ops)
	}
	cenv := NewEnv(ops, &Plan{})
	cenv.Phase = "compile"
	c, err, pan := CompileSpec(&w.Cfg, w.Prog, 0, w.Cfg.ViaDirect, cenv)
	st.Evals++
	if pan != nil {
		return viol(w, "compile-panic", "Compile panicked: %v", pan)
	}
	if err != nil {
		return viol(w, "compile-error", "Compile rejected a well-formed program: %v", err)
	}
	if len(cenv.Log) > 0 {
		return viol(w, "compile-call", "user operator called during an unoptimised Compile: %v", cenv.Log[0])
	}
	nodes := 0
	if c.Ch != nil {
		nodes = c.NodeCount()
	}
	control := hasControl(w.Prog)
	wh := w.Hash()
	st.World(wh)
	st.T("world %x src=%s", wh, c.Src)

	arena := map[string]interface{}{} // the caller's reusable list buffers, by variable
	one := func(p *Plan) *Violation {
		if w.API == "evalbool" {
			q := p.Clone()
			q.Kind = "evalbool"
			p = &q
		}
		ref := RefL2R(&w.Cfg, ops, w.Prog, p)
		if _, ood := ref.Err.(*OutOfDomain); ood {
			st.Skipped++
			return nil
		}
		var out Outcome
		if w.Extra["reuse_buffers"] == "1" {
			env := NewEnv(ops, p)
			env.Phase = "eval"
			for name, v := range env.bind {
				switch l := v.(type) {
				case []int64:
					buf, _ := arena[name].([]int64)
					if buf == nil || cap(buf) < len(l) {
						buf = make([]int64, len(l), len(l)+8)
						arena[name] = buf
					}
					copy(buf[:len(l)], l)
					env.bind[name] = buf[:len(l)]
				case []string:
					buf, _ := arena[name].([]string)
					if buf == nil || cap(buf) < len(l) {
						buf = make([]string, len(l), len(l)+8)
						arena[name] = buf
					}
					copy(buf[:len(l)], l)
					env.bind[name] = buf[:len(l)]
				}
			}
			st.Faults["buffer_reuse"]++
			out = c.RunEnv(env, p.Kind)
		} else {
			out = c.Run(ops, p, "eval")
		}
		st.Evals++
		st.Steps += int64(out.Env.N)
		st.AddFaults(out.Env.Fired)
		st.Path(pathHash(&out))
		st.T("call %s -> %s %s err=%v calls=%d", p.Canon(), out.Class(), ValStr(out.Val), out.Err, out.Env.N)
		if v := compareResult(w, p, ref, &out, true); v != nil {
			return v
		}
		if out.Env.Sets > 0 {
			return viol(narrowed(w, p), "set-call", "engine called VariableFetcher.Set")
		}
		if c.Ch != nil {
			if msg, ok := checkLoopEvents(out.Events, nodes); !ok {
				return viol(narrowed(w, p), "loop-order", "%s", msg)
			}
		}
		switch out.Class() {
		case "value":
			st.Probe("result_value")
		case "builtin-error":
			st.Probe("error_from_builtin")
		case "simerr:get_error", "simerr:get_unbound", "simerr:cancel":
			st.Probe("error_from_fetch")
		case "simerr:op_error":
			st.Probe("error_from_user_operator")
		}
		return nil
	}

	for i := range w.Calls {
		p := &w.Calls[i]
		if v := one(p); v != nil {
			return v
		}
		clean := len(p.FailAt) == 0 && p.CancelFrom == 0
		if clean {
			// number of seam calls of the fault-free run, from the reference
			n := RefL2R(&w.Cfg, ops, w.Prog, p).Env.N
			if control && n >= 2 {
				st.Nontrivial(wh)
			}
			if w.EnumFaults {
				for k := 0; k < n; k++ {
					q := p.Clone()
					q.FailAt = []int{k}
					if v := one(&q); v != nil {
						return v
					}
				}
				st.Probe("every_point_enumerations")
			}
		}
	}
	st.Sample(w.Canon())
	return nil
}

// runOneShot drives the package-level eval.Eval(text, vals): variables and
// user operators are registered from the one map (RegVarAndOp), the real
// fetchers serve the values, optimisations are switched off by directive.
func (propC01) runOneShot(w *World, st *Stats, ops map[string]*OpSpec) *Violation {
	wh := w.Hash()
	st.World(wh)
	if len(w.Cfg.Consts) > 0 {
		// eval.Eval has no way to pass constants without also passing options;
		// substitute literals would change the program, so such worlds use the
		// explicit option route
		st.Probe("oneshot_with_options")
	}
	for i := range w.Calls {
		p := &w.Calls[i]
		if len(p.FailAt) > 0 || p.CancelFrom > 0 {
			continue // the real fetchers cannot be made to fail
		}
		ref := RefL2R(&w.Cfg, ops, w.Prog, p)
		if _, ood := ref.Err.(*OutOfDomain); ood {
			st.Skipped++
			continue
		}
		env := NewEnv(ops, p)
		host := &OpHost{Specs: ops, CompileEnv: env} // one-shot: ctx carries a real fetcher
		vals := map[string]interface{}{}
		for n, v := range p.Bind {
			vals[n] = v.Go()
		}
		for _, v := range w.Cfg.Vars {
			if _, ok := vals[v.Name]; !ok {
				// unbound variable: one-shot registration is by the map's keys,
				// so the name would not even compile; skip this call
				vals = nil
				break
			}
		}
		if vals == nil {
			st.Skipped++
			continue
		}
		for i, sp := range w.Cfg.Ops {
			if i%2 == 0 {
				vals[sp.Name] = host.Operator(sp.Name)
			} else {
				vals[sp.Name] = (func(*eval.Ctx, []eval.Value) (eval.Value, error))(host.Operator(sp.Name))
			}
		}
		src := Directive(0, w.Cfg.DirStyle) + w.Prog.Src()
		var out Outcome
		out.Env = env
		func() {
			defer func() {
				if r := recover(); r != nil {
					out.Panic = r
					out.Stack = string(debug.Stack())
				}
			}()
			if len(w.Cfg.Consts) > 0 {
				consts := w.Cfg.ConstVals()
				out.Val, out.Err = eval.Eval(src, vals, eval.RegVarAndOp(vals), func(c *eval.Config) {
					for k, v := range consts {
						c.ConstantMap[k] = v
					}
				})
			} else {
				out.Val, out.Err = eval.Eval(src, vals)
			}
		}()
		st.Evals++
		st.Path(pathHash(&out))
		st.T("oneshot %s -> %s %s", p.Canon(), out.Class(), ValStr(out.Val))
		if out.Panic != nil {
			return viol(narrowed(w, p), "panic", "eval.Eval panicked: %v\n%s", out.Panic, out.Stack)
		}
		// user-operator failures are seam errors and keep their identity; Get
		// goes through the real fetcher, so only the class of other errors is
		// comparable
		if ref.Err == nil {
			if out.Err != nil {
				return viol(narrowed(w, p), "spurious-error", "one-shot: reference value %s, engine error %v", ValStr(ref.Val), out.Err)
			}
			if !ValEq(out.Val, ref.Val) {
				return viol(narrowed(w, p), "value-mismatch", "one-shot: reference %s, engine %s", ValStr(ref.Val), ValStr(out.Val))
			}
		} else if out.Err == nil {
			return viol(narrowed(w, p), "missing-error", "one-shot: reference fails with %v, engine returned %s", ref.Err, ValStr(out.Val))
		}
		// the operators passed with THIS call are the ones that run, with the
		// reference's arguments, in its order
		var want, got []Call
		for _, c := range ref.Env.Log {
			if c.Kind == "op" {
				want = append(want, c)
			}
		}
		for _, c := range env.Log {
			if c.Kind == "op" {
				got = append(got, c)
			}
		}
		if d := logDiff(&w.Cfg, want, got); d != "" {
			return viol(narrowed(w, p), "call-mismatch", "one-shot: operator calls received by the operators passed with this call differ from the reference: %s", d)
		}
		st.Probe("oneshot_runs")
	}
	st.Sample(w.Canon())
	return nil
}

var _ = fmt.Sprintf
