package sim

import (
	"encoding/json"
	"os"
	"path/filepath"
)

// Finding is one entry of /verif/known_findings.json. The file is committed and
// never written at run time. status "known" suppresses exactly the violations
// whose minimised witness matches the entry's matcher; status "fixed" entries
// are documentation and suppress nothing.
type Finding struct {
	Property string `json:"property_id"`
	Status   string `json:"status"` // known | fixed
	ID       string `json:"id"`
	Kind     string `json:"kind"`
	What     string `json:"what"`
	Commit   string `json:"commit,omitempty"`
	Witness  string `json:"witness,omitempty"`
}

type KnownFindings struct {
	Findings []Finding `json:"findings"`
}

func LoadKnownFindings() *KnownFindings {
	var kf KnownFindings
	b, err := os.ReadFile(filepath.Join(verifDir, "known_findings.json"))
	if err != nil {
		return &kf
	}
	json.Unmarshal(b, &kf)
	return &kf
}

// matchers decide, per finding id, whether a minimised violation is that
// finding: the violation kind must match, the witness must have the finding's
// structural pattern, and a counterfactual run with the pattern's trigger
// removed must no longer fail.
var matchers = map[string]func(p Prop, v *Violation) bool{}

func (kf *KnownFindings) Match(p Prop, v *Violation) *Finding {
	for i := range kf.Findings {
		f := &kf.Findings[i]
		if f.Status != "known" || f.Property != v.Prop {
			continue
		}
		m := matchers[f.ID]
		if m == nil {
			continue
		}
		if m(p, v) {
			return f
		}
	}
	return nil
}
