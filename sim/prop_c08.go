package sim

import (
	"fmt"
	"strconv"
	"strings"

	"github.com/onheap/eval"
)

// C08 — Compile is a pure, deterministic function of config contents and source.
//
// Simulated system: one caller-owned Config shared by 1-4 loader tasks that
// compile sources carrying every directive combination, copy and extend the
// config, and evaluate what they compiled. The only seams inside Compile are
// compile-time calls of stateless user operators; the simulator yields there,
// makes them fail, or makes them panic (a compilation killed half-way).
// Engines: inline histories, synctest bubble, and the -race build under the
// baton scheduler (which is what catches a Compile that writes to the caller's
// maps and restores them).
type propC08 struct{}

func init() {
	Register(propC08{})
	meta["C08"] = propMeta{
		Rule: "A case is one world: a Config built in one of five ways (struct literal with nil maps, literal with all maps, NewConfig, CopyConfig, ExtendConf) from generated contents (constants, variable keys, stateless and undeclared user operators, cost map, option subset set or unset), 1-3 programs, and 1-4 loader tasks x 1-4 steps: Compile of a program with a ';;;;' directive text of its own (any subset, four layouts, or none), CopyConfig/ExtendConf followed by mutation of every container of the copy, with injected failures and aborts (panics) of stateless operators during folding. Checked: deep reflection snapshot of the shared Config unchanged after every step (inline) / scheduler step (bubble); every compiled program has the same Dump and the same behaviour on sampled bindings as an isolated compile of the same source on a freshly built equal config; mutating a copy never moves the source's snapshot and vice versa; zero race reports in the -race build. evaluations = calls into the library. non-trivial = distinct worlds with at least two Compile steps with different directive texts (or two tasks) over the shared config.",
		Assumptions: []string{
			"values stored in ConstantMap are treated as immutable atoms (the engine hands list constants out by reference too); interior mutation of a constant's slice is outside what is checked",
			"equivalence of programs is Dump + behaviour on sampled bindings, as the statement says (not DumpTable)",
			"baseline is an isolated compile by the real library on a freshly built equal config",
			"sampling: a clean batch is evidence, not proof",
		},
		Engines:    []string{"INLINE histories", "BUBBLE (testing/synctest)", "BATON-RACE (-race build)"},
		FaultKinds: []string{"compile_op_error", "abort", "task_stall", "task_abandon", "slow_call (a stateless operator spends 300 ms of the bubble's simulated clock during Compile)"},
	}
	extraPhases["C08"] = racePhase
	replayHooks["C08"] = raceReplay
}

func (propC08) ID() string { return "C08" }

func (propC08) Gen(r *Rng, tier string) *World {
	k := DrawKnobs(r)
	k.ConstHeavy = r.P(0.6)
	if k.Budget > 0 { // program size is not what this property is about; keep worlds small and many
		k.Budget, k.MaxDepth, k.MaxFan, k.PLeaf = 0, 5, 4, 0.2
	}
	k.NOps = r.Range(1, 4)
	k.Stateless = 0.7
	k.FailOp = r.P(0.3)
	k.NoSetConst = true
	k.PUnbound = 0
	k.RawConsts = r.P(0.3)
	g := NewGen(r, k)
	w := &World{Prop: "C08", Extra: map[string]string{}}
	np := r.Range(1, 3)
	for i := 0; i < np; i++ {
		w.Progs = append(w.Progs, g.Program())
	}
	w.Cfg = g.C
	for i := range w.Cfg.Ops {
		if w.Cfg.Ops[i].Stateless && w.Cfg.Ops[i].Kind == "pure" && r.P(0.15) {
			// a stateless operator whose first call is slow (lazily loaded table):
			// how long folding takes is no input of Compile
			w.Cfg.Ops[i].SlowFirst = true
		}
	}
	w.Cfg.OptMask = r.Intn(16)
	w.Extra["build"] = strconv.Itoa(r.Intn(5))
	w.Extra["set_opts"] = []string{"0", "1"}[r.Intn(2)]
	if r.P(0.15) {
		// the master switch stored directly in CompileOptions (nothing reads it
		// there; nothing may write next to it either)
		w.Extra["optimize_key"] = []string{"true", "false"}[r.Intn(2)]
		w.Extra["set_opts"] = "0"
	}
	if r.P(0.5) {
		w.Cfg.Costs = map[string]string{}
		names := []string{"variable", "operator", "and", "="}
		for _, v := range w.Cfg.Vars {
			names = append(names, v.Name)
		}
		for i, n := 0, r.Range(1, 3); i < n; i++ {
			w.Cfg.Costs[names[r.Intn(len(names))]] = costPool[r.Intn(len(costPool))]
		}
	}
	w.Cfg.Event = []string{"", "", "", "report", "debug", "both"}[r.Intn(6)]
	ops := SpecMap(w.Cfg.Ops)
	// sampled bindings for behavioural comparison
	for i, n := 0, r.Range(1, 2); i < n; i++ {
		w.Calls = append(w.Calls, Plan{Kind: "eval", Bind: g.Binding()})
	}
	nt := 1
	if r.P(0.6) {
		nt = r.Range(2, 4)
		w.Extra["engine"] = "bubble"
	} else {
		w.Extra["engine"] = "inline"
	}
	for t := 0; t < nt; t++ {
		var script []Step
		ns := r.Range(1, 4)
		if nt == 1 {
			ns = r.Range(2, 7)
		}
		for i := 0; i < ns; i++ {
			switch x := r.Intn(10); {
			case x < 7:
				s := Step{Op: "compile", Expr: r.Intn(np), Mask: r.Intn(16), Arg: []string{"none", "0", "1", "2", "3", "4", "5", "6", "7"}[r.Intn(9)]}
				if r.P(0.08) {
					s.Arg = "bad" + strconv.Itoa(r.Intn(5)) // a directive Compile must reject
				}
				cp := Plan{Kind: "compile"}
				if r.P(0.3) {
					ref := RefL2R(&w.Cfg, ops, w.Progs[s.Expr], &w.Calls[0])
					for _, c := range ref.Env.Log {
						if c.Kind == "op" && ops[c.Name].Stateless && r.P(0.4) {
							cp.FailOps = append(cp.FailOps, OpKey(c.Name, c.Args))
						}
					}
				}
				if r.P(0.1) {
					cp.AbortAt = r.Intn(3) + 1
				}
				s.Plan = &cp
				script = append(script, s)
			case x < 8:
				// an unrelated compilation with ANOTHER config (other event
				// options, other subset) in between: "in any order relative to
				// other compilations"
				script = append(script, Step{Op: "foreign", Expr: r.Intn(np), Mask: r.Intn(16), Arg: []string{"", "report", "debug", "both"}[r.Intn(4)]})
			case x < 9 && r.P(0.3):
				// Compile with a nil Config (legal: built-ins and literals only)
				script = append(script, Step{Op: "nilconf", Mask: r.Intn(16), Arg: strconv.Itoa(r.Intn(8))})
			case x < 9:
				script = append(script, Step{Op: "copyconf", Arg: []string{"copy", "extend"}[r.Intn(2)]})
			default:
				script = append(script, Step{Op: "copyconf", Arg: "reverse"})
			}
		}
		w.Tasks = append(w.Tasks, script)
	}
	w.Extra["sched_seed"] = strconv.FormatUint(r.U64(), 10)
	w.Extra["p_switch"] = []string{"0.2", "0.5", "0.9"}[r.Intn(3)]
	return w
}

// buildSharedConfig builds the caller-owned config in the requested style.
func buildSharedConfig(w *World, host *OpHost) *eval.Config {
	setOpts := w.Extra["set_opts"] == "1"
	full := BuildConfig(&w.Cfg, host, w.Cfg.OptMask, setOpts)
	if v, ok := w.Extra["optimize_key"]; ok {
		full.CompileOptions[eval.Optimize] = v == "true"
	}
	switch w.Extra["build"] {
	case "1": // struct literal, nil maps wherever the spec has nothing to put in
		cc := &eval.Config{}
		if len(full.ConstantMap) > 0 {
			cc.ConstantMap = full.ConstantMap
		}
		if len(full.OperatorMap) > 0 {
			cc.OperatorMap = full.OperatorMap
		}
		if len(full.VariableKeyMap) > 0 {
			cc.VariableKeyMap = full.VariableKeyMap
		}
		if len(full.CostsMap) > 0 {
			cc.CostsMap = full.CostsMap
		}
		if len(full.CompileOptions) > 0 {
			cc.CompileOptions = full.CompileOptions
		}
		cc.StatelessOperators = full.StatelessOperators
		return cc
	case "2": // NewConfig, then filled
		cc := eval.NewConfig()
		for k, v := range full.ConstantMap {
			cc.ConstantMap[k] = v
		}
		for k, v := range full.OperatorMap {
			cc.OperatorMap[k] = v
		}
		for k, v := range full.VariableKeyMap {
			cc.VariableKeyMap[k] = v
		}
		for k, v := range full.CostsMap {
			cc.CostsMap[k] = v
		}
		for k, v := range full.CompileOptions {
			cc.CompileOptions[k] = v
		}
		cc.StatelessOperators = append(cc.StatelessOperators, full.StatelessOperators...)
		return cc
	case "3":
		return eval.CopyConfig(full)
	case "4":
		return eval.NewConfig(eval.ExtendConf(full))
	}
	return full
}

// mutateConfig changes every container of cc in every way.
func mutateConfig(cc *eval.Config) {
	if cc.ConstantMap != nil {
		for k := range cc.ConstantMap {
			cc.ConstantMap[k] = "mutated"
		}
		cc.ConstantMap["zz_new_const"] = int64(1)
	}
	if cc.OperatorMap != nil {
		for k := range cc.OperatorMap {
			delete(cc.OperatorMap, k)
			break
		}
		cc.OperatorMap["zz_new_op"] = func(*eval.Ctx, []eval.Value) (eval.Value, error) { return nil, nil }
	}
	if cc.VariableKeyMap != nil {
		for k := range cc.VariableKeyMap {
			cc.VariableKeyMap[k] = 12345
		}
		cc.VariableKeyMap["zz_new_var"] = 77
	}
	if cc.CostsMap != nil {
		for k := range cc.CostsMap {
			cc.CostsMap[k] = -1
		}
		cc.CostsMap["zz_new_cost"] = 3
	}
	if cc.CompileOptions != nil {
		for k := range cc.CompileOptions {
			cc.CompileOptions[k] = !cc.CompileOptions[k]
		}
		cc.CompileOptions[eval.InfixNotation] = true
	}
	for i := range cc.StatelessOperators {
		cc.StatelessOperators[i] = "zz_overwritten"
	}
	cc.StatelessOperators = append(cc.StatelessOperators, "zz_appended") // may or may not have spare capacity
}

type c08out struct {
	expr      *eval.Expr // the compiled program (kept to look at it again after later compilations)
	Recompile string     // non-empty: recompiling the same source on the same config gave another program
	Err       string
	Dump      string
	Abort     bool
	Behave    []callResult
}

func (a c08out) diff(b c08out) string {
	switch {
	case a.Abort != b.Abort:
		return fmt.Sprintf("aborted %v vs %v", a.Abort, b.Abort)
	case (a.Err == "") != (b.Err == ""):
		return fmt.Sprintf("Compile error %q vs %q", a.Err, b.Err)
	case a.Dump != b.Dump:
		return fmt.Sprintf("Dump differs:\nshared config:  %s\nisolated:       %s", oneLine(a.Dump), oneLine(b.Dump))
	}
	for i := range a.Behave {
		if i < len(b.Behave) {
			if d := a.Behave[i].diff(b.Behave[i]); d != "" {
				return "behaviour differs on sampled binding: " + d
			}
		}
	}
	return ""
}

type c08run struct {
	w    *World
	ops  map[string]*OpSpec
	host *OpHost
	cc   *eval.Config
}

func c08src(w *World, s Step) string {
	src := w.Progs[s.Expr%len(w.Progs)].Src()
	if strings.HasPrefix(s.Arg, "bad") {
		k, _ := strconv.Atoi(s.Arg[3:])
		return []string{";;;; optimise: false\n", ";;;; reordering: maybe\n", ";;;;optimize\n", ";;;; constant_folding: true: false\n", ";;;; fast_evaluation: true, debug: true\n"}[k%5] + src
	}
	if s.Arg != "none" && s.Arg != "" {
		style, _ := strconv.Atoi(s.Arg)
		src = Directive(s.Mask, style) + src
	}
	return src
}

// compileStep compiles s's source with cc and reduces the result.
func (rn *c08run) compileStep(cc *eval.Config, host *OpHost, s Step, yield func(kind, name string), pure bool) (out c08out) {
	src := c08src(rn.w, s)
	var cenv *Env
	if !pure {
		plan := s.Plan
		if plan == nil {
			plan = &Plan{}
		}
		cenv = NewEnv(rn.ops, plan)
		cenv.Phase = "compile"
		cenv.Yield = yield
		host.CompileEnv = cenv
	}
	var e *eval.Expr
	var err error
	func() {
		defer func() {
			if r := recover(); r != nil {
				switch r.(type) {
				case AbortPanic:
					out.Abort = true
				case taskKilled:
					out.Abort = true
				default:
					out.Err = fmt.Sprintf("panic: %v", r)
				}
			}
		}()
		e, err = eval.Compile(cc, src)
	}()
	if out.Abort || out.Err != "" {
		return
	}
	if err != nil {
		out.Err = "compile error"
		return
	}
	out.Dump = eval.Dump(e)
	out.expr = e
	// "compiling the same source with an equal config, again, yields an
	// equivalent program": recompile a few times right away; anything inside
	// Compile that depends on Go map order shows up here within one run
	if !pure && len(s.Plan.FailOps) == 0 && s.Plan.AbortAt == 0 {
		for k := 0; k < 12; k++ {
			host.CompileEnv = NewEnv(rn.ops, &Plan{})
			var e2 *eval.Expr
			var err2 error
			var pan2 interface{}
			func() {
				defer func() { pan2 = recover() }()
				e2, err2 = eval.Compile(cc, src)
			}()
			if pan2 != nil {
				// nothing in a recompilation under an empty plan can panic on its
				// own: an operator of ANOTHER compilation or configuration was run
				out.Recompile = fmt.Sprintf("compile #1: %s\ncompile #%d panicked: %v", oneLine(out.Dump), k+2, pan2)
				break
			}
			if err2 != nil {
				out.Dump += "\n;; recompile " + strconv.Itoa(k) + " failed"
				break
			}
			if d2 := eval.Dump(e2); d2 != out.Dump {
				out.Recompile = fmt.Sprintf("compile #1: %s\ncompile #%d: %s", oneLine(out.Dump), k+2, oneLine(d2))
				break
			}
		}
		host.CompileEnv = cenv
	}
	c := &Compiled{Expr: e, Conf: cc, Host: host, Src: src}
	if cc.CompileOptions[eval.ReportEvent] || cc.CompileOptions[eval.Debug] {
		c.Ch = make(chan eval.Event, 4096)
		e.EventChan = c.Ch
	}
	for i := range rn.w.Calls {
		env := NewEnv(rn.ops, &rn.w.Calls[i])
		if pure {
			env = NewEnv(rn.ops, &rn.w.Calls[i])
		}
		o := c.RunEnv(env, "eval")
		out.Behave = append(out.Behave, reduce(&o, false))
	}
	return
}

func (pr propC08) Run(w *World, st *Stats) *Violation {
	ops := SpecMap(w.Cfg.Ops)
	wh := w.Hash()
	st.World(wh)
	engine := w.Extra["engine"]
	if engine == "" {
		engine = "inline"
	}
	if raceBuild {
		engine = "baton"
	}
	if engine == "bubble" && workerT == nil {
		engine = "inline"
	}
	rn := &c08run{w: w, ops: ops}
	rn.host = &OpHost{Specs: ops}
	rn.cc = buildSharedConfig(w, rn.host)
	h0 := SnapHash(rn.cc)
	text0 := SnapText(rn.cc)
	checkCfg := func(when string) *Violation {
		if h := SnapHash(rn.cc); h != h0 {
			return viol(w, "config-modified", "the caller's Config changed %s:\n%s", when, SnapDiff(text0, SnapText(rn.cc)))
		}
		return nil
	}
	// isolated baselines: the same source on a freshly built equal config.
	// Under the race detector they are computed AFTER the concurrent phase: the
	// first compilations of a fresh process then happen in the tasks themselves,
	// unordered for the detector, so an unsynchronised lazy initialisation inside
	// the library is visible (first world of every -race worker, and every
	// confirmation run).
	base := make([][]c08out, len(w.Tasks))
	nCompiles, directives := 0, map[string]bool{}
	for _, script := range w.Tasks {
		for _, s := range script {
			if s.Op == "compile" {
				nCompiles++
				directives[s.Arg+"/"+strconv.Itoa(s.Mask)] = true
			}
		}
	}
	computeBase := func() {
		for ti, script := range w.Tasks {
			for _, s := range script {
				if s.Op != "compile" {
					base[ti] = append(base[ti], c08out{})
					continue
				}
				host := &OpHost{Specs: ops, Pure: engine == "baton"}
				cc := buildSharedConfig(w, host)
				base[ti] = append(base[ti], rn.compileStep(cc, host, s, nil, engine == "baton"))
				st.Evals += int64(1 + len(w.Calls))
			}
		}
	}
	if engine != "baton" {
		computeBase()
	}
	st.T("world %x engine=%s tasks=%d compiles=%d", wh, engine, len(w.Tasks), nCompiles)
	results := make([][]c08out, len(w.Tasks))
	var stepViol *Violation

	// copyStep: CopyConfig / ExtendConf isolation in both directions
	copyStep := func(s Step) *Violation {
		switch s.Arg {
		case "copy", "extend":
			var cp *eval.Config
			if s.Arg == "copy" {
				cp = eval.CopyConfig(rn.cc)
			} else {
				cp = eval.NewConfig(eval.ExtendConf(rn.cc))
			}
			mutateConfig(cp)
			if h := SnapHash(rn.cc); h != h0 {
				return viol(w, "copy-shares-state", "mutating the result of %s changed the source config:\n%s", s.Arg, SnapDiff(text0, SnapText(rn.cc)))
			}
		case "reverse":
			host := &OpHost{Specs: ops}
			src := buildSharedConfig(w, host)
			for _, how := range []string{"copy", "extend"} {
				var cp *eval.Config
				if how == "copy" {
					cp = eval.CopyConfig(src)
				} else {
					cp = eval.NewConfig(eval.ExtendConf(src))
				}
				hc, tc := SnapHash(cp), SnapText(cp)
				src2 := buildSharedConfig(w, host)
				_ = src2
				mutateConfig(src)
				if SnapHash(cp) != hc {
					return viol(w, "copy-shares-state", "mutating the source config changed its %s:\n%s", how, SnapDiff(tc, SnapText(cp)))
				}
				src = buildSharedConfig(w, host)
			}
		}
		return nil
	}

	// nilConf: Compile(nil, text). A directive in one such compilation must not
	// reach the next one: the same literal-only source is compiled before and
	// after a compilation that carries a directive; the two Dumps must agree.
	nilConf := func(s Step) *Violation {
		const src = "(and (> (+ 1 2) 2) (= (* 2 3) 6) (< 1 (- 5 3)))"
		style, _ := strconv.Atoi(s.Arg)
		var d [2]string
		for k := 0; k < 2; k++ {
			var e *eval.Expr
			var err error
			func() {
				defer func() { recover() }()
				e, err = eval.Compile(nil, src)
			}()
			if e == nil || err != nil {
				return nil
			}
			d[k] = eval.Dump(e)
			if k == 0 {
				func() {
					defer func() { recover() }()
					eval.Compile(nil, Directive(s.Mask, style)+src)
				}()
			}
		}
		if d[0] != d[1] {
			return viol(w, "nondeterministic-compile", "Compile(nil, text) of the same literal-only source gives %s before and %s after another Compile(nil, ...) whose source carries the directive %q", oneLine(d[0]), oneLine(d[1]), Directive(s.Mask, style))
		}
		return nil
	}
	foreign := func(s Step) {
		fc := w.Cfg
		fc.Event = s.Arg
		fh := &OpHost{Specs: ops, Pure: true}
		fcc := BuildConfig(&fc, fh, s.Mask, true)
		func() {
			defer func() { recover() }() // totality is C06's business
			eval.Compile(fcc, w.Progs[s.Expr%len(w.Progs)].Src())
		}()
	}
	doStep := func(ti, si int, s Step, yield func(kind, name string)) c08out {
		if s.Op == "compile" {
			return rn.compileStep(rn.cc, rn.host, s, yield, engine == "baton")
		}
		if s.Op == "foreign" {
			foreign(s)
			return c08out{}
		}
		if s.Op == "nilconf" {
			if v := nilConf(s); v != nil && stepViol == nil {
				stepViol = v
			}
			return c08out{}
		}
		if v := copyStep(s); v != nil && stepViol == nil {
			stepViol = v
		}
		return c08out{}
	}

	switch engine {
	case "inline":
		for ti, script := range w.Tasks {
			for si, s := range script {
				o := doStep(ti, si, s, nil)
				results[ti] = append(results[ti], o)
				st.Evals += int64(1 + len(w.Calls))
				st.Steps++
				st.T(" t%d s%d %s %s -> err=%q abort=%v dump=%s", ti, si, s.Op, s.Arg, o.Err, o.Abort, oneLine(o.Dump))
				if stepViol != nil {
					return stepViol
				}
				if v := checkCfg(fmt.Sprintf("during step %d (%s %s)", si, s.Op, s.Arg)); v != nil {
					return v
				}
			}
		}
		st.Probe("inline_histories")
	case "bubble":
		b := &Bubble{W: w, St: st}
		envs := make([]*Env, len(w.Tasks))
		_ = envs
		for ti, script := range w.Tasks {
			b.Tasks = append(b.Tasks, &mtask{id: ti, steps: script})
			results[ti] = make([]c08out, 0, len(script))
		}
		b.Knobs = BubbleKnobs{PSwitch: 0.5, PRecv: 0.5, StallTask: -1, MaxSteps: 2000}
		if v, e := strconv.ParseFloat(w.Extra["p_switch"], 64); e == nil {
			b.Knobs.PSwitch = v
		}
		// compile-time callbacks carry no Ctx: the host finds the running
		// task's Env through CompileEnv, which each task re-installs whenever
		// it is resumed (only one task runs at a time)
		rn.host.Sleep = b.Sleep
		defer func() { rn.host.Sleep = nil }()
		b.Exec = func(task, call int, s Step, yield func(kind, name string)) *Outcome {
			var myEnv *Env
			y := func(kind, name string) {
				myEnv = rn.host.CompileEnv
				yield(kind, name)
				rn.host.CompileEnv = myEnv
			}
			o := doStep(task, call, s, y)
			results[task] = append(results[task], o)
			return &Outcome{}
		}
		b.AfterStep = func(b *Bubble) *Violation {
			if stepViol != nil {
				return stepViol
			}
			return checkCfg(fmt.Sprintf("by scheduler step %d", b.Steps))
		}
		b.Run(workerT)
		st.Steps += int64(b.Steps)
		st.Sched(schedHash(b.Taken))
		st.T(" bubble steps=%d taken=%v", b.Steps, b.Taken)
		bw := w.Clone()
		bw.Sched = append([]int(nil), b.Taken...)
		delete(bw.Extra, "sched_seed")
		if b.Viol != nil {
			b.Viol.World = bw
			return b.Viol
		}
		if b.Stuck {
			return viol(bw, "stuck", "a loader task did not finish: %s", b.StuckInfo)
		}
		for ti, tk := range b.Tasks {
			if tk.abandon && tk.kill && len(results[ti]) > 0 {
				results[ti] = results[ti][:len(results[ti])-1]
			}
		}
		w = bw
		st.Probe("bubble_runs")
	case "baton":
		seed, _ := strconv.ParseUint(w.Extra["sched_seed"], 10, 64)
		pSwitch, _ := strconv.ParseFloat(w.Extra["p_switch"], 64)
		_, useRng := w.Extra["sched_seed"]
		rn.host.Pure = true
		perTask := make([][]c08out, len(w.Tasks))
		taken := RunBaton(len(w.Tasks), seed, useRng, pSwitch, 0, w.Sched, func(task int, yield func(kind, name string)) {
			for si, s := range w.Tasks[task] {
				yield("step", s.Op)
				var o c08out
				if s.Op == "compile" {
					o = rn.compileStep(rn.cc, rn.host, s, nil, true)
				} else if s.Op == "foreign" {
					foreign(s)
				} else if s.Op == "nilconf" {
					nilConf(s)
				} else if s.Arg != "reverse" {
					// copying the shared config while others compile from it
					var cp *eval.Config
					if s.Arg == "copy" {
						cp = eval.CopyConfig(rn.cc)
					} else {
						cp = eval.NewConfig(eval.ExtendConf(rn.cc))
					}
					mutateConfig(cp)
				}
				_ = si
				perTask[task] = append(perTask[task], o)
			}
		})
		for ti := range perTask {
			results[ti] = perTask[ti]
		}
		st.Steps += int64(len(taken))
		st.Sched(schedHash(taken))
		bw := w.Clone()
		bw.Sched = taken
		delete(bw.Extra, "sched_seed")
		w = bw
		st.Probe("baton_runs")
		computeBase()
	}
	if stepViol != nil {
		stepViol.World = w
		return stepViol
	}
	if v := checkCfg("by the end of the run"); v != nil {
		v.World = w
		return v
	}
	for ti := range results {
		for si, o := range results[ti] {
			if w.Tasks[ti][si].Op != "compile" {
				continue
			}
			if o.Err != "" && o.Err != "compile error" {
				return viol(w, "panic", "task %d step %d: Compile panicked: %s", ti, si, o.Err)
			}
			if o.Recompile != "" {
				return viol(w, "nondeterministic-compile", "task %d step %d: compiling the same source with the same config again gives a different program:\n%s", ti, si, o.Recompile)
			}
			if base[ti][si].Recompile != "" {
				return viol(w, "nondeterministic-compile", "task %d step %d (fresh equal config): compiling the same source again gives a different program:\n%s", ti, si, base[ti][si].Recompile)
			}
			if o.expr != nil && engine != "baton" {
				// a program compiled earlier is still the same program after all the
				// compilations that followed it
				if d2 := eval.Dump(o.expr); d2 != o.Dump {
					return viol(w, "earlier-program-changed", "task %d step %d: the program compiled here dumped as %s then; after the later compilations of this world it dumps as %s", ti, si, oneLine(o.Dump), oneLine(d2))
				}
			}
			if d := o.diff(base[ti][si]); d != "" {
				return viol(w, "differs-from-isolation", "task %d step %d (compile program %d, directive style %s mask %d, %s): %s", ti, si, w.Tasks[ti][si].Expr, w.Tasks[ti][si].Arg, w.Tasks[ti][si].Mask, engine, d)
			}
			if o.Abort {
				st.Faults["abort"]++
			}
		}
	}
	if len(directives) >= 2 || (len(w.Tasks) >= 2 && nCompiles >= 2) {
		st.Nontrivial(wh)
	}
	st.Sample(w.Canon())
	return nil
}
