package sim

import (
	"errors"
	"fmt"
	"strconv"

	"github.com/onheap/eval"
)

// C12 — Event reporting observes evaluation faithfully without changing it.
//
// Simulated system: one evaluator task running Eval or TryEval in ReportEvent
// or Debug mode; the simulator is the consumer on Expr.EventChan and decides
// the channel capacity, when each event is received (back-pressure) and when a
// retained event is looked at again. Two engines: INLINE with an ample buffer
// (every event stays in the channel until the call has returned: the
// "retain until the evaluation has finished" consumer) and BUBBLE (capacity
// 0..8, receives interleaved with the evaluator at every seam and send).
type propC12 struct{}

func init() {
	Register(propC12{})
	meta["C12"] = propMeta{
		Rule: "A case is one world: generated program + configuration compiled in ReportEvent or Debug mode under one option subset, one call (Eval or TryEval, with identity-keyed operator/fetch failures and, for TryEval, unavailable variables), a channel capacity in {0,1,2,3,8,ample} and a consumer plan (seeded: when to receive, when to re-inspect retained events). Every world runs INLINE with an ample buffer (events read only after the call returned); 40% also run in a synctest BUBBLE where the scheduler is the consumer. Checked: result and Dump equal those of the same source compiled without event options; OP_EXEC events of user operators equal the seam log (arguments deep-equal to the copy taken inside the callback); OP_EXEC events, in order, match the operator applications of the L2R reference on the Dump tree with their arguments and results (and/or applications optional); built-in events are self-consistent at late inspection; every retained event still equals its at-receipt copy at every later inspection; LOOP positions strictly increase, at most node-count; after all calls the consumer overwrites and appends to every stack snapshot and argument list it received, one event at a time: no other event it holds changes and a further evaluation gives the unchanged result (snapshots are private); the evaluator finishes once the consumer drains. evaluations = calls into the library. non-trivial = distinct worlds whose call produced at least two OP_EXEC events and whose program has and/or/if.",
		Assumptions: []string{
			"whether the engine calls the and/or function itself or decides it by jumping is not fixed by the statement: and/or applications are optional slots in the order check",
			"the application-order check applies to Eval; for TryEval the seam-log, self-consistency, intactness and LOOP checks apply",
			"in BUBBLE the consumer is the scheduler, not a user goroutine: consumer timing is covered, consumer-side data races (user code) are out of scope",
			"sampling: a clean batch is evidence, not proof",
		},
		Engines:    []string{"INLINE (ample buffer, late inspection)", "BUBBLE (testing/synctest; scheduler = consumer)"},
		FaultKinds: []string{"get_error (by name)", "op_error (by operator+arguments)", "unavailable", "chan_capacity", "consumer_delay", "consumer_retain", "consumer_write", "abort (a callback panics mid-evaluation)"},
	}
}

func (propC12) ID() string { return "C12" }

func (propC12) Gen(r *Rng, tier string) *World {
	k := DrawKnobs(r)
	k.NoSetConst = true
	k.PUnbound = 0
	if k.NOps == 0 {
		k.NOps = r.Range(1, 3)
	}
	if r.P(0.4) {
		k.FailOp = true
	}
	k.TupleOp = r.P(0.2)
	if r.P(0.1) {
		k.NVars = 0
	}
	g := NewGen(r, k)
	w := &World{Prop: "C12"}
	w.Prog = g.Program()
	w.Cfg = g.C
	w.Cfg.Event = []string{"report", "debug", "both"}[r.Intn(3)]
	w.Cfg.ViaDirect = r.P(0.2)
	w.Cfg.DirStyle = r.Intn(8)
	w.Cfg.ViaAPI = r.P(0.4)
	w.Masks = []int{r.Intn(16)}
	ops := SpecMap(w.Cfg.Ops)
	p := Plan{Kind: []string{"eval", "eval", "tryeval"}[r.Intn(3)], Bind: g.Binding()}
	if p.Kind == "tryeval" && r.P(0.7) {
		for _, v := range w.Cfg.Vars {
			if r.P(0.3) {
				p.Unavail = append(p.Unavail, v.Name)
			}
		}
	}
	if r.P(0.4) {
		ref := RefL2R(&w.Cfg, ops, w.Prog, &p)
		for _, c := range ref.Env.Log {
			if c.Kind == "op" && c.Err == nil && r.P(0.25) {
				p.FailOps = append(p.FailOps, OpKey(c.Name, c.Args))
			}
			if c.Kind == "get" && r.P(0.08) {
				p.FailVars = append(p.FailVars, c.Name)
			}
		}
	}
	p.CtxDone = r.P(0.2)
	noVars := len(referencedVars(w.Prog)) == 0
	if noVars && r.P(0.5) {
		p.NilCtx = true // no variable to read: the caller may pass no Ctx at all
	}
	p.RawErr = r.P(0.15) // the operators' errors must be carried, not rendered
	aborts := false
	if r.P(0.08) {
		// a callback (fetcher or user operator) panics in the middle of the
		// evaluation: observed or not, the panic reaches the caller of Eval
		p.AbortAt = 1 + r.Intn(6)
		aborts = true
	}
	w.Calls = []Plan{p}
	// further calls on the same Expr, with other bindings: events of earlier
	// calls are retained while later calls run
	extraCalls := []int{0, 0, 1, 2}[r.Intn(4)]
	if r.P(0.01) {
		extraCalls = r.Range(25, 60) // events of dozens of evaluations retained together
	}
	if tier == "thorough" {
		extraCalls = r.Intn(6)
	}
	for i, n := 0, extraCalls; i < n; i++ {
		q := Plan{Kind: []string{"eval", "eval", "tryeval"}[r.Intn(3)], Bind: g.Binding()}
		if q.Kind == "tryeval" && r.P(0.5) {
			for _, v := range w.Cfg.Vars {
				if r.P(0.3) {
					q.Unavail = append(q.Unavail, v.Name)
				}
			}
		}
		if r.P(0.3) {
			q.FailOps = p.FailOps
		}
		if r.P(0.04) {
			q.AbortAt = 1 + r.Intn(6)
			aborts = true
		}
		q.NilCtx = noVars && r.P(0.3)
		q.RawErr = p.RawErr
		w.Calls = append(w.Calls, q)
	}
	w.ChCap = []int{0, 0, 1, 2, 3, 8, -1}[r.Intn(7)] // -1 = ample
	w.Extra = map[string]string{}
	if len(w.Calls) > 1 && r.P(0.5) {
		w.Extra["swap_chan"] = "1"
	}
	if r.P(0.4) && !aborts {
		w.Extra["bubble"] = "1"
		w.Extra["sched_seed"] = strconv.FormatUint(r.U64(), 10)
		w.Extra["p_recv"] = []string{"0.1", "0.5", "0.9"}[r.Intn(3)]
	}
	return w
}

func sameOutcome(a, b *Outcome) string {
	if (a.Err == nil) != (b.Err == nil) {
		return fmt.Sprintf("%s %s (err %v) vs %s %s (err %v)", a.Class(), ValStr(a.Val), a.Err, b.Class(), ValStr(b.Val), b.Err)
	}
	if a.Err == nil {
		if !ValEq(a.Val, b.Val) {
			return fmt.Sprintf("value %s vs %s", ValStr(a.Val), ValStr(b.Val))
		}
		return ""
	}
	var sa, sb *SimErr
	ia, ib := errors.As(a.Err, &sa), errors.As(b.Err, &sb)
	if ia != ib || (ia && (sa.Kind != sb.Kind || sa.What != sb.What)) {
		return fmt.Sprintf("error %v vs %v", a.Err, b.Err)
	}
	return ""
}

// checkEvents applies the event oracles to the events of one call, as they
// read at (late) inspection time.
func checkEvents(w *World, ops map[string]*OpSpec, tree *Node, p *Plan, out *Outcome, evs []eval.Event, nodes int, st *Stats) (string, string) {
	// (vi) LOOP positions
	if msg, ok := checkLoopEvents(evs, nodes); !ok {
		return "loop-order", msg
	}
	var opEvs []eval.OpEventData
	for _, ev := range evs {
		switch ev.EventType {
		case eval.OpExecEvent:
			d, ok := ev.Data.(eval.OpEventData)
			if !ok {
				return "event-shape", fmt.Sprintf("OP_EXEC event carries %T", ev.Data)
			}
			opEvs = append(opEvs, d)
		case eval.LoopEvent:
		default:
			return "event-shape", fmt.Sprintf("unknown event type %q", ev.EventType)
		}
	}
	// LOOP snapshots are the real operand stack: right before a (non-fast)
	// operator is applied its operands are the top of the stack, so the LOOP
	// event of an operator node must end with the arguments of the OP_EXEC
	// event that immediately follows it
	for i := 0; i+1 < len(evs); i++ {
		ld, ok := evs[i].Data.(eval.LoopEventData)
		if !ok || evs[i].EventType != eval.LoopEvent || ld.NodeType != eval.OperatorNode {
			continue
		}
		od, ok := evs[i+1].Data.(eval.OpEventData)
		if !ok || od.IsFastOp || fmt.Sprint(ld.NodeValue) != od.OpName {
			continue
		}
		st.Probe("loop_snapshots_checked_against_operands")
		stack := evs[i].Stack
		if len(stack) < len(od.Params) {
			return "loop-stack", fmt.Sprintf("LOOP event before %s shows a stack of %d values, the operator is then applied to %d operands", od.OpName, len(stack), len(od.Params))
		}
		top := stack[len(stack)-len(od.Params):]
		if !ValEq(toIfaces(top), toIfaces(od.Params)) {
			return "loop-stack", fmt.Sprintf("LOOP event before %s shows %s on top of the operand stack, the operator is then applied to %s", od.OpName, ValStr(toIfaces(top)), ValStr(toIfaces(od.Params)))
		}
	}
	// (ii) user-operator events are exactly the seam log
	var simEvs []eval.OpEventData
	for _, d := range opEvs {
		if ops[d.OpName] != nil && !IsBuiltin(d.OpName) { // a user operator under a built-in name never runs
			simEvs = append(simEvs, d)
		}
	}
	seam := opCalls(out.Env.Log, ops, false)
	for i := 0; i < len(seam) || i < len(simEvs); i++ {
		if i >= len(simEvs) {
			return "missing-event", fmt.Sprintf("user operator call %v has no OP_EXEC event", seam[i])
		}
		if i >= len(seam) {
			return "extra-event", fmt.Sprintf("OP_EXEC event for %s%s without a matching call", simEvs[i].OpName, ValStr(toIfaces(simEvs[i].Params)))
		}
		c, d := seam[i], simEvs[i]
		if c.Name != d.OpName {
			return "event-order", fmt.Sprintf("event %d is for %s, call %d was %v", i, d.OpName, i, c)
		}
		if !ValEq(c.Args, toIfaces(d.Params)) {
			return "event-args", fmt.Sprintf("OP_EXEC event of %s carries arguments %s; at call time they were %s", d.OpName, ValStr(toIfaces(d.Params)), ValStr(c.Args))
		}
		if (c.Err == nil) != (d.Err == nil) || (c.Err == nil && !ValEq(c.Res, fromEngine(d.Res, 0))) {
			return "event-result", fmt.Sprintf("OP_EXEC event of %s carries result %s err=%v; the call returned %v", d.OpName, ValStr(d.Res), d.Err, c)
		}
		if c.Err != nil && !errors.Is(d.Err, c.Err) {
			return "event-result", fmt.Sprintf("OP_EXEC event of %s carries error %v, the operator returned %v", d.OpName, d.Err, c.Err)
		}
	}
	// (iii) built-in events are self-consistent
	for _, d := range opEvs {
		if !IsBuiltin(d.OpName) {
			continue
		}
		ps := toIfaces(d.Params)
		if p.Kind == "tryeval" && containsDNE(ps) {
			continue
		}
		v, err := ApplyBuiltin(d.OpName, ps)
		if _, ood := err.(*OutOfDomain); ood {
			continue
		}
		if (err == nil) != (d.Err == nil) || (err == nil && !ValEq(v, d.Res)) {
			return "event-inconsistent", fmt.Sprintf("OP_EXEC event reads %s%s -> %s err=%v, but %s applied to those arguments gives %s err=%v", d.OpName, ValStr(ps), ValStr(d.Res), d.Err, d.OpName, ValStr(v), err)
		}
	}
	// (iv) order and content against the reference's operator applications
	if p.Kind == "eval" || p.Kind == "" || p.Kind == "evalbool" {
		var applied []Applied
		env := NewEnv(ops, p)
		it := &Interp{Consts: w.Cfg.ConstVals(), Env: env, Applied: &applied}
		if w.Masks[0]&OptFE != 0 {
			it.FastPair = func(*Node) bool { return true }
		}
		_, rerr := it.L2R(tree)
		if _, ood := rerr.(*OutOfDomain); ood {
			st.Skipped++
			return "", ""
		}
		j := 0
		for _, d := range opEvs {
			var a Applied
			for {
				if j >= len(applied) {
					return "extra-event", fmt.Sprintf("OP_EXEC event for %s%s -> %s has no corresponding operator application", d.OpName, ValStr(toIfaces(d.Params)), ValStr(d.Res))
				}
				a = applied[j]
				if a.Name == d.OpName && (!a.Optional || d.Err != nil || ValEq(a.Res, d.Res)) {
					j++
					break
				}
				if a.Optional {
					j++ // decided by jumping: no event
					continue
				}
				return "event-order", fmt.Sprintf("the evaluation applies %s%s next, but the next OP_EXEC event is for %s%s", a.Name, ValStr(a.Args), d.OpName, ValStr(toIfaces(d.Params)))
			}
			if a.Optional {
				continue
			}
			if !ValEq(a.Args, toIfaces(d.Params)) {
				return "event-args", fmt.Sprintf("OP_EXEC event of %s carries arguments %s; the operator was applied to %s", d.OpName, ValStr(toIfaces(d.Params)), ValStr(a.Args))
			}
			if (a.Err == nil) != (d.Err == nil) || (a.Err == nil && !ValEq(a.Res, fromEngine(d.Res, 0))) {
				return "event-result", fmt.Sprintf("OP_EXEC event of %s%s carries %s err=%v; the application yields %s err=%v", d.OpName, ValStr(a.Args), ValStr(d.Res), d.Err, ValStr(a.Res), a.Err)
			}
		}
		for ; j < len(applied); j++ {
			if !applied[j].Optional {
				return "missing-event", fmt.Sprintf("operator application %s%s has no OP_EXEC event", applied[j].Name, ValStr(applied[j].Args))
			}
		}
	}
	return "", ""
}

func toIfaces(ps []eval.Value) []interface{} {
	r := make([]interface{}, len(ps))
	for i, p := range ps {
		r[i] = fromEngine(p, 0) // a []eval.Value (what a params-returning operator yields) reads as a plain list
	}
	return r
}

func containsDNE(ps []interface{}) bool {
	for _, p := range ps {
		if p == eval.DNE {
			return true
		}
	}
	return false
}

func (pr propC12) Run(w *World, st *Stats) *Violation {
	ops := SpecMap(w.Cfg.Ops)
	wh := w.Hash()
	st.World(wh)
	if len(w.Masks) == 0 {
		w.Masks = []int{w.Cfg.OptMask}
	}
	mask := w.Masks[0]
	if w.Cfg.Event == "" {
		w.Cfg.Event = "report"
	}
	// the same source without event options
	plain := w.Cfg
	plain.Event = ""
	c0, err0, pan0 := CompileSpec(&plain, w.Prog, mask, w.Cfg.ViaDirect, NewEnv(ops, &Plan{}))
	c, err, pan := CompileSpec(&w.Cfg, w.Prog, mask, w.Cfg.ViaDirect, NewEnv(ops, &Plan{}))
	st.Evals += 2
	if pan0 != nil || pan != nil {
		return viol(w, "compile-panic", "Compile panicked: %v %v", pan0, pan)
	}
	if err0 != nil || err != nil {
		return viol(w, "compile-error", "Compile rejected a well-formed program: %v %v", err0, err)
	}
	// (i) the decompiled program is unchanged
	d0 := c0.RunEnv(NewEnv(ops, &Plan{}), "dump")
	d1 := c.RunEnv(NewEnv(ops, &Plan{}), "dump")
	if d0.Panic != nil || d1.Panic != nil {
		return viol(w, "panic", "Dump panicked: %v %v", d0.Panic, d1.Panic)
	}
	if d0.Text != d1.Text {
		return viol(w, "dump-changed", "enabling %s changes the decompiled program:\nwithout: %s\nwith:    %s", w.Cfg.Event, oneLine(d0.Text), oneLine(d1.Text))
	}
	tree, derr := ReadDump(d1.Text)
	if derr != nil {
		return viol(w, "dump-unreadable", "Dump output cannot be read back: %v", derr)
	}
	nodes := c.NodeCount()
	st.T("world %x mask %d ev=%s cap=%d calls=%d dump=%s", wh, mask, w.Cfg.Event, w.ChCap, len(w.Calls), oneLine(d1.Text))

	// ---- INLINE, ample buffer. The calls run one after another on the same
	// Expr; each call's events are taken out of the channel only after it has
	// returned and are retained, as received, until every call is done.
	type callRec struct {
		p      *Plan
		base   Outcome
		out    Outcome
		kept   []eval.Event // as received
		copies []eval.Event // deep copies taken at receipt
	}
	recs := make([]*callRec, len(w.Calls))
	only := func(i int) *World { // the world reduced to calls 0..i (later calls cannot matter)
		c := w.Clone()
		c.Calls = c.Calls[:i+1]
		return c
	}
	totalOps := 0
	for i := range w.Calls {
		p := &w.Calls[i]
		r := &callRec{p: p}
		recs[i] = r
		r.base = c0.Run(ops, p, "eval")
		st.Evals++
		if r.base.Panic != nil && !r.base.Abort {
			return viol(only(i), "panic", "%s without events panicked: %v\n%s", p.Kind, r.base.Panic, r.base.Stack)
		}
		if w.Extra["swap_chan"] == "1" {
			// the consumer hands the Expr a fresh channel for every call and closes
			// the previous one (a common way to end a per-evaluation consumer)
			if c.Ch != nil && c.Ch != inlineCh {
				close(c.Ch)
			}
			c.Ch = make(chan eval.Event, 4*nodes+64)
			c.Expr.EventChan = c.Ch
		}
		r.out = c.Run(ops, p, "eval")
		st.Evals++
		st.Steps += int64(r.out.Env.N)
		st.AddFaults(r.out.Env.Fired)
		st.Path(pathHash(&r.out))
		if r.base.Abort != r.out.Abort {
			return viol(only(i), "result-changed", "a callback panics during call %d (%s): without events the call ends in %s, with %s it ends in %s %s (err %v) — observing must not change what the caller sees", i, p.Kind, r.base.Class(), w.Cfg.Event, r.out.Class(), ValStr(r.out.Val), r.out.Err)
		}
		if r.out.Abort {
			// killed half-way: what was reported up to then is retained like any
			// other event (and must stay intact); nothing else is demanded of it
			st.Faults["abort"]++
			r.kept = r.out.Events
			for _, ev := range r.kept {
				r.copies = append(r.copies, deepCopyEvent(ev))
			}
			continue
		}
		if r.out.Panic != nil {
			return viol(only(i), "panic", "%s with events panicked: %v\n%s", p.Kind, r.out.Panic, r.out.Stack)
		}
		st.T(" inline call %d %s -> %s %s events=%d", i, p.Canon(), r.out.Class(), ValStr(r.out.Val), len(r.out.Events))
		if d := sameOutcome(&r.base, &r.out); d != "" {
			return viol(only(i), "result-changed", "enabling %s changes the result of call %d (%s): %s", w.Cfg.Event, i, p.Kind, d)
		}
		r.kept = r.out.Events
		for _, ev := range r.kept {
			r.copies = append(r.copies, deepCopyEvent(ev))
			if ev.EventType == eval.OpExecEvent {
				totalOps++
			}
		}
		// inspection right after this call
		if kind, msg := checkEvents(w, ops, tree, p, &r.out, r.kept, nodes, st); kind != "" {
			return viol(only(i), kind, "[call %d; consumer reads events after the call returned] %s\ndump: %s", i, msg, oneLine(d1.Text))
		}
		// every event retained from earlier calls is still intact
		for j := 0; j <= i; j++ {
			for k := range recs[j].kept {
				if !eventsEqual(recs[j].kept[k], recs[j].copies[k]) {
					return viol(only(i), "retained-event-clobbered", "event %d of call %d read %q when received; after call %d it reads %q", k, j, eventStr(recs[j].copies[k]), i, eventStr(recs[j].kept[k]))
				}
			}
		}
	}
	// A consumer may do what it likes with what it has received (redact values
	// before logging, append to a snapshot): every stack snapshot and every
	// argument list is private to its event, so nothing else the consumer holds,
	// and no later evaluation, may change when it writes to one.
	for j := range recs {
		kept := recs[j].kept
		for k := range kept {
			scribble(kept[k])
			hi := len(kept)
			if hi > k+1+32 {
				hi = k + 1 + 32
			}
			for m := k + 1; m < hi; m++ {
				if !eventsEqual(kept[m], recs[j].copies[m]) {
					return viol(only(j), "snapshot-shared", "the consumer overwrote the slots of event %d of call %d (%s) and appended to it; event %d, which read %q when received, now reads %q",
						k, j, eventStr(recs[j].copies[k]), m, eventStr(recs[j].copies[m]), eventStr(kept[m]))
				}
			}
		}
	}
	st.Faults["consumer_write"]++
	if n := len(recs); n > 0 && w.Extra["swap_chan"] != "1" && !recs[n-1].base.Abort {
		r := recs[n-1]
		again := c.Run(ops, r.p, "eval")
		st.Evals++
		if again.Panic != nil {
			return viol(w, "panic", "%s panicked after the consumer wrote to the events of earlier calls: %v\n%s", r.p.Kind, again.Panic, again.Stack)
		}
		if d := sameOutcome(&r.base, &again); d != "" {
			return viol(w, "result-changed", "after the consumer wrote to events it had received, call %d (%s) gives a different result: %s", n-1, r.p.Kind, d)
		}
	}
	if totalOps >= 2 && hasControl(w.Prog) {
		st.Nontrivial(wh)
	}
	st.Faults["consumer_retain"]++
	st.ProbeN("op_exec_events", totalOps)
	if len(w.Calls) > 1 {
		st.Probe("multi_call_worlds")
	}

	// ---- BUBBLE: the scheduler is the consumer
	if w.Extra["bubble"] == "1" && workerT != nil {
		capacity := w.ChCap
		if capacity < 0 {
			capacity = len(w.Calls)*(4*nodes+16) + 16
		}
		cb, _, _ := CompileSpec(&w.Cfg, w.Prog, mask, w.Cfg.ViaDirect, NewEnv(ops, &Plan{}))
		cb.NoDrain = true
		st.Evals++
		bouts := make([]*Outcome, 0, len(w.Calls))
		b := &Bubble{W: w, St: st}
		b.Setup = func(b *Bubble) {
			ch := make(chan eval.Event, capacity) // created inside the bubble
			cb.Ch = ch
			cb.Expr.EventChan = ch
			b.Chans = []chan eval.Event{ch}
		}
		var script []Step
		for i := range w.Calls {
			script = append(script, Step{Op: w.Calls[i].Kind, Plan: &w.Calls[i]})
		}
		b.Tasks = []*mtask{{id: 0, steps: script}}
		b.Knobs = BubbleKnobs{PSwitch: 0.5, PRecv: 0.5, StallTask: -1, MaxSteps: len(w.Calls) * (40*nodes + 400)}
		if v, e := strconv.ParseFloat(w.Extra["p_recv"], 64); e == nil {
			b.Knobs.PRecv = v
		}
		var bad *Violation
		b.Exec = func(task, call int, s Step, yield func(kind, name string)) *Outcome {
			env := NewEnv(ops, s.Plan)
			env.Yield = yield
			o := cb.RunEnv(env, s.Plan.Kind)
			bouts = append(bouts, &o)
			return &o
		}
		// (v) at every receipt, every event retained so far still equals its at-receipt copy
		b.OnRecv = func(b *Bubble, r *Recv) {
			if len(bouts) == len(w.Calls) {
				r.Returned = true
			}
			if bad != nil {
				return
			}
			for i := range b.Recvd {
				if !eventsEqual(b.Recvd[i].Ev, b.Recvd[i].Copy) {
					bad = viol(w, "retained-event-clobbered", "event received at step %d read %q then; inspected again at step %d it reads %q", b.Recvd[i].Step, eventStr(b.Recvd[i].Copy), b.Steps, eventStr(b.Recvd[i].Ev))
					return
				}
			}
		}
		b.Run(workerT)
		st.Evals += int64(len(w.Calls))
		st.Steps += int64(b.Steps)
		st.Sched(schedHash(b.Taken))
		st.Faults["chan_capacity_"+strconv.Itoa(w.ChCap)]++
		st.T(" bubble steps=%d recvd=%d taken=%v", b.Steps, len(b.Recvd), b.Taken)
		bw := w.Clone()
		bw.Sched = append([]int(nil), b.Taken...)
		delete(bw.Extra, "sched_seed")
		if b.Viol != nil {
			b.Viol.World = bw
			return b.Viol
		}
		if bad != nil {
			bad.World = bw
			return bad
		}
		// (vii) bounded liveness
		if b.Stuck || len(bouts) != len(w.Calls) {
			return viol(bw, "stuck", "the evaluator did not finish although the consumer drained: %s", b.StuckInfo)
		}
		for i, bo := range bouts {
			if bo.Panic != nil {
				return viol(bw, "panic", "%s panicked under back-pressure: %v\n%s", w.Calls[i].Kind, bo.Panic, bo.Stack)
			}
			if d := sameOutcome(&recs[i].base, bo); d != "" {
				return viol(bw, "result-changed", "with channel capacity %d and a slow consumer the result of call %d (%s) changes: %s", w.ChCap, i, w.Calls[i].Kind, d)
			}
		}
		// final inspection, after every call returned
		delayed := 0
		for i := range b.Recvd {
			if !eventsEqual(b.Recvd[i].Ev, b.Recvd[i].Copy) {
				return viol(bw, "retained-event-clobbered", "event received at step %d read %q then; after the calls returned it reads %q", b.Recvd[i].Step, eventStr(b.Recvd[i].Copy), eventStr(b.Recvd[i].Ev))
			}
			if b.Recvd[i].Returned {
				delayed++
			}
		}
		// the consumer's timing must not change what is reported: the stream
		// splits into the calls' event sequences exactly as in the inline run
		pos := 0
		for i, r := range recs {
			n := len(r.kept)
			if pos+n > len(b.Recvd) {
				return viol(bw, "missing-event", "with channel capacity %d the consumer received %d events; the same calls produce %d when the events are read after each call", w.ChCap, len(b.Recvd), pos+n)
			}
			late := make([]eval.Event, n)
			for k := 0; k < n; k++ {
				late[k] = b.Recvd[pos+k].Ev
			}
			pos += n
			if kind, msg := checkEvents(w, ops, tree, r.p, bouts[i], late, nodes, st); kind != "" {
				return viol(bw, kind, "[call %d; capacity %d, scheduler as consumer] %s\ndump: %s", i, w.ChCap, msg, oneLine(d1.Text))
			}
		}
		if pos != len(b.Recvd) {
			return viol(bw, "extra-event", "with channel capacity %d the consumer received %d events; the same calls produce %d when the events are read after each call", w.ChCap, len(b.Recvd), pos)
		}
		st.Probe("bubble_runs")
		st.ProbeN("events_received_after_call_returned", delayed)
		st.Faults["consumer_delay"] += int64(b.Steps - len(b.Recvd))
	}
	st.Sample(w.Canon())
	return nil
}
