package sim

import (
	"fmt"
	"strings"
)

// C03 — Skipped and/or operands and untaken if-branches are never evaluated.
//
// Observation: the seam log (ordered Get and user-operator calls with deep
// copied arguments and results/errors). Oracle: the L2R reference run on the
// tree Dump shows, under the same fault plan; the logs must agree call for
// call. One relaxation, straight from the statement: with FastEvaluation on,
// at an and/or whose two operands are both leaves the second leaf may be
// fetched although the first already decided.
type propC03 struct{}

func init() {
	Register(propC03{})
	meta["C03"] = propMeta{
		Rule: "A case is one world: generated program + configuration, compiled under 4 of the 16 optimisation subsets (options or directive route, event mode random), 1-3 bindings, every-point single-fault enumeration at the seam (60% of worlds) and random multi-fault plans. Three quarters of the worlds evaluate with Eval, one quarter with TryEval and every variable available (which evaluates the same program). For each (subset, plan) the engine's ordered seam log is compared with the log of the L2R reference run on the re-read Dump tree. evaluations = calls into the library. non-trivial = distinct worlds whose program has and/or/if and whose fault-free run makes at least two seam calls.",
		Assumptions: []string{
			"Dump is trusted as the description of the optimised program (the statement defines it so); an unreadable Dump is reported, not ignored",
			"the one permitted relaxation (second leaf of a two-leaf and/or fetched under FastEvaluation) is matched by trying both alternatives at each such point; with FastEvaluation off the match is exact",
			"and/or operands boolean-typed or failing; set-typed constants are not generated (Dump of a set cannot be re-read)",
			"sampling: a clean batch is evidence, not proof",
		},
		Engines:    []string{"INLINE"},
		FaultKinds: []string{"get_error", "get_unbound", "op_error", "cancel_from"},
	}
}

func (propC03) ID() string { return "C03" }

func (propC03) Gen(r *Rng, tier string) *World {
	k := DrawKnobs(r)
	k.NoSetConst = true
	k.TupleOp = r.P(0.3)
	if r.P(0.5) {
		k.FailOp = true
	}
	if r.P(0.5) {
		k.BoolBias = 4
	}
	g := NewGen(r, k)
	w := &World{Prop: "C03"}
	w.Prog = g.Program()
	w.Cfg = g.C
	w.Cfg.ViaDirect = r.P(0.3)
	w.Cfg.DirStyle = r.Intn(8)
	w.Cfg.ViaAPI = r.P(0.4)
	w.Cfg.Event = []string{"", "", "", "report", "debug", "both"}[r.Intn(6)]
	w.API = []string{"eval", "eval", "eval", "tryeval", "evalbool"}[r.Intn(5)] // TryEval with every variable available evaluates too
	first := r.Intn(16)
	nm := 4
	if tier == "thorough" {
		nm = 8
	}
	for i := 0; i < nm; i++ {
		w.Masks = append(w.Masks, (first+i*[]int{1, 3, 5, 7}[r.Intn(4)])%16)
	}
	base := Plan{Bind: g.Binding()}
	w.Calls = append(w.Calls, base)
	for i, nb := 0, r.Intn(3); i < nb; i++ {
		w.Calls = append(w.Calls, Plan{Bind: g.Binding()})
	}
	w.EnumFaults = r.P(0.6)
	for i, nf := 0, r.Intn(3); i < nf; i++ {
		w.Calls = append(w.Calls, randomFaultPlan(r, &base, 1+r.Intn(12)))
	}
	if w.API != "tryeval" && r.P(0.3) {
		// a fetcher with a cold cache: Cached says no for some variables, Get
		// loads them all the same. Eval and EvalBool evaluate; what is or is not
		// cached is none of their business
		for i := range w.Calls {
			for _, v := range w.Cfg.Vars {
				if r.P(0.4) {
					w.Calls[i].Unavail = append(w.Calls[i].Unavail, v.Name)
				}
			}
		}
	}
	return w
}

// logDiff compares an expected (reference) and an actual (engine) seam log.
func logDiff(cfg *CfgSpec, want, got []Call) string {
	for i := 0; i < len(want) || i < len(got); i++ {
		if i >= len(got) {
			return fmt.Sprintf("call %d missing: reference performs %v, engine stops after %d calls", i, want[i], len(got))
		}
		if i >= len(want) {
			return fmt.Sprintf("extra call %d: engine performs %v, reference stops after %d calls", i, got[i], len(want))
		}
		a, b := want[i], got[i]
		if a.Kind != b.Kind || a.Name != b.Name {
			return fmt.Sprintf("call %d differs: reference %v, engine %v", i, a, b)
		}
		if a.Kind == "get" {
			if k := cfg.KeyOf(a.Name); b.VarKey != k {
				return fmt.Sprintf("call %d: Get(%s) carries key %d, configuration assigns %d", i, a.Name, b.VarKey, k)
			}
		}
		if a.Kind == "op" && !ValEq(a.Args, b.Args) {
			return fmt.Sprintf("call %d: operator %s called with %s, reference %s", i, a.Name, ValStr(b.Args), ValStr(a.Args))
		}
		if (a.Err == nil) != (b.Err == nil) {
			return fmt.Sprintf("call %d: reference %v, engine %v", i, a, b)
		}
	}
	return ""
}

// matchLog decides whether the engine's seam log is one the reference can
// produce on tree under plan p, trying the alternatives at the optional
// fast-pair points when fast is set. It returns "" on a match, else the diff
// against the closest alternative.
func matchLog(cfg *CfgSpec, ops map[string]*OpSpec, tree *Node, p *Plan, fast bool, got []Call) (string, bool) {
	run := func(choices uint, counter *int) ([]Call, error) {
		env := NewEnv(ops, p)
		it := &Interp{Consts: cfg.ConstVals(), Env: env}
		if fast {
			it.FastPair = func(*Node) bool {
				i := *counter
				*counter = i + 1
				if i >= 16 {
					return true
				}
				return choices&(1<<uint(i)) != 0
			}
		}
		_, err := it.L2R(tree)
		return env.Log, err
	}
	n := 0
	want, err := run(^uint(0), &n) // take every optional fetch: what the engine does today
	if _, ood := err.(*OutOfDomain); ood {
		return "", false
	}
	first := logDiff(cfg, want, got)
	if first == "" || n == 0 {
		return first, true
	}
	if n > 10 {
		n = 10
	}
	for c := uint(0); c < 1<<uint(n); c++ {
		k := 0
		want, _ := run(c, &k)
		if logDiff(cfg, want, got) == "" {
			return "", true
		}
	}
	return first, true
}

func (propC03) Run(w *World, st *Stats) *Violation {
	ops := SpecMap(w.Cfg.Ops)
	wh := w.Hash()
	st.World(wh)
	control := hasControl(w.Prog)
	masks := w.Masks
	if len(masks) == 0 {
		masks = []int{w.Cfg.OptMask}
	}
	for _, mask := range masks {
		cenv := NewEnv(ops, &Plan{})
		cenv.Phase = "compile"
		c, err, pan := CompileSpec(&w.Cfg, w.Prog, mask, w.Cfg.ViaDirect, cenv)
		st.Evals++
		mw := w
		if len(masks) > 1 {
			mw = w.Clone()
			mw.Masks = []int{mask}
		}
		if pan != nil {
			return viol(mw, "compile-panic", "Compile panicked under mask %d: %v", mask, pan)
		}
		if err != nil {
			return viol(mw, "compile-error", "Compile rejected a well-formed program under mask %d: %v", mask, err)
		}
		tree, text, err := c.DumpTree()
		if err != nil {
			return viol(mw, "dump-unreadable", "Dump output cannot be read back: %v\n%s", err, text)
		}
		fast := mask&OptFE != 0
		nodes := 0
		if c.Ch != nil {
			nodes = c.NodeCount()
		}
		st.T("world %x mask %d dump=%s", wh, mask, strings.Join(strings.Fields(text), " "))
		if fast && strings.Contains(text, "(") {
			st.Probe("fast_evaluation_on")
		}
		one := func(p *Plan) (*Violation, int) {
			if (w.API == "tryeval" || w.API == "evalbool") && p.Kind != w.API {
				q := p.Clone()
				q.Kind = w.API
				p = &q
			}
			out := c.Run(ops, p, "eval")
			st.Evals++
			st.Steps += int64(out.Env.N)
			st.AddFaults(out.Env.Fired)
			st.Path(pathHash(&out))
			st.T("call %s -> %s calls=%d", p.Canon(), out.Class(), out.Env.N)
			if out.Panic != nil {
				return viol(narrowed(mw, p), "panic", "engine panicked: %v\n%s", out.Panic, out.Stack), 0
			}
			diff, inDomain := matchLog(&w.Cfg, ops, tree, p, fast, out.Env.Log)
			if !inDomain {
				st.Skipped++
				return nil, out.Env.N
			}
			if diff != "" {
				kind := "call-mismatch"
				switch {
				case strings.HasPrefix(diff, "extra call"):
					kind = "extra-call"
				case strings.Contains(diff, "missing"):
					kind = "missing-call"
				case strings.Contains(diff, "carries key"):
					kind = "wrong-key"
				}
				return viol(narrowed(mw, p), kind, "mask %d, dump %s\n%s\nengine log: %v", mask, strings.Join(strings.Fields(text), " "), diff, out.Env.Log), 0
			}
			if out.Env.Sets > 0 {
				return viol(narrowed(mw, p), "set-call", "engine called VariableFetcher.Set"), 0
			}
			if c.Ch != nil {
				if msg, ok := checkLoopEvents(out.Events, nodes); !ok {
					return viol(narrowed(mw, p), "loop-order", "%s", msg), 0
				}
			}
			return nil, out.Env.N
		}
		for i := range w.Calls {
			p := &w.Calls[i]
			v, n := one(p)
			if v != nil {
				return v
			}
			clean := len(p.FailAt) == 0 && p.CancelFrom == 0
			if clean {
				if control && n >= 2 {
					st.Nontrivial(wh)
				}
				if w.EnumFaults {
					for k := 0; k < n; k++ {
						q := p.Clone()
						q.FailAt = []int{k}
						if v, _ := one(&q); v != nil {
							return v
						}
					}
					st.Probe("every_point_enumerations")
				}
			}
		}
	}
	st.Sample(w.Canon())
	return nil
}
