package sim

import (
	"fmt"
	"sort"
	"strings"

	"github.com/onheap/eval"
)

// C06 — Compile and evaluation are total (evaluation half).
//
// Claimed here: for every program the generators produce — including
// deliberately ill-typed ones — Compile (with the built-in and stateless
// operators it invokes while folding), Eval, TryEval, EvalBool, TryEvalBool,
// Dump and DumpTable return without panicking and terminate, under any binding
// of supported-type values (lists, sets and nil included, in any operand
// position) and under every error-returning fault of the simulated
// environment; in event mode LOOP positions strictly increase and there are at
// most node-count of them. Not claimed: Compile on arbitrary text (a pure
// function of a string; see DESIGN.md).
type propC06 struct{}

func init() {
	Register(propC06{})
	meta["C06"] = propMeta{
		Rule: "A case is one world: a deliberately ill-typed program (any operator or alias with 0-5 operands of any type, and/or over non-booleans, non-boolean/nil if conditions, list/set/nil-valued variables and constants anywhere) or a well-typed one (30%), compiled under 3 option subsets and every event mode, then driven through Eval, TryEval (random unavailable sets), EvalBool, TryEvalBool, Dump and DumpTable under 2-4 bindings with every-point single-fault enumeration on half of the worlds. Oracle: totality only (no panic, termination watchdog, LOOP positions strictly increasing and at most node-count). evaluations = calls into the library. non-trivial = distinct worlds whose program has at least 3 nodes and for which at least one call returned an error and at least one returned a value.",
		Assumptions: []string{
			"only the evaluation half of C06 is decided here; Compile on arbitrary source text is a pure function of a string and is not a simulation target",
			"fetchers and operators are well-behaved in the statement's sense: they return values or errors, they do not panic",
			"termination outside event mode is watched by a watchdog (no progress for 20 s of wall time with 15 s of CPU burnt, or for 120 s whatever the CPU use); a hang must reproduce in a fresh process to count, otherwise it is reported as a note, never as a verdict",
			"sampling: a clean batch is evidence, not proof",
		},
		Engines:    []string{"INLINE"},
		FaultKinds: []string{"get_error", "get_unbound", "op_error", "cancel_from", "unavailable"},
	}
}

func (propC06) ID() string { return "C06" }

var allBuiltinNames = func() []string {
	var s []string
	for k := range builtinNames {
		s = append(s, k)
	}
	sortStrings(s)
	return s
}()

// illExpr draws an expression with no regard for types or operand counts.
func illExpr(g *Gen, d int) *Node {
	r := g.R
	anyTy := func() Ty {
		return []Ty{TBool, TInt, TStr, TIntList, TStrList, TIntSet, TStrSet}[r.Intn(7)]
	}
	g.left--
	if d <= 1 || g.left <= 0 || r.P(0.25) {
		return g.Leaf(anyTy())
	}
	d--
	switch x := r.Intn(10); {
	case x < 6:
		name := allBuiltinNames[r.Intn(len(allBuiltinNames))]
		n := r.Intn(6)
		if r.P(0.5) {
			n = 2
		}
		a := make([]*Node, n)
		for i := range a {
			a[i] = illExpr(g, d)
		}
		return Op(name, a...)
	case x < 8:
		return If(illExpr(g, d), illExpr(g, d), illExpr(g, d))
	case x < 9 && len(g.C.Ops) > 0:
		sp := g.C.Ops[r.Intn(len(g.C.Ops))]
		n := sp.Arity
		if r.P(0.3) {
			n = r.Intn(5)
		}
		a := make([]*Node, n)
		for i := range a {
			a[i] = illExpr(g, d)
		}
		return Op(sp.Name, a...)
	}
	return g.Expr(anyTy(), d)
}

func (propC06) Gen(r *Rng, tier string) *World {
	k := DrawKnobs(r)
	k.Sets = true
	k.NoListEq = false
	k.PIll = []float64{0.1, 0.3}[r.Intn(2)]
	k.PIllCond = 0.2
	if r.P(0.5) {
		k.FailOp = true
	}
	k.RawConsts = r.P(0.3)
	if r.P(0.15) {
		k.NVars = 0 // programs over constants and operators only (evaluated without a Ctx now and then)
	}
	g := NewGen(r, k)
	w := &World{Prop: "C06"}
	if r.P(0.03) && len(g.by[TBool]) > 0 {
		// very wide and/or nests: each operator within the operand limit, the
		// flattened one around or beyond it (Compile may reject; what it
		// accepts must evaluate)
		name := PickS(r, []string{"and", "or", "&", "||"})
		inner := PickS(r, []string{name, name, "and", "or"})
		leaf := func() *Node {
			if r.P(0.9) {
				return Var(g.by[TBool][r.Intn(len(g.by[TBool]))])
			}
			return Lit(VB(r.P(0.5)))
		}
		total := r.Range(100, 270)
		var kids []*Node
		for total > 0 {
			if r.P(0.5) {
				kids = append(kids, leaf())
				total--
				continue
			}
			n := r.Range(2, 120)
			var sub []*Node
			for i := 0; i < n; i++ {
				sub = append(sub, leaf())
			}
			kids = append(kids, Op(inner, sub...))
			total -= n
		}
		if len(kids) > 120 {
			kids = kids[:120]
		}
		if len(kids) < 2 {
			kids = append(kids, leaf(), leaf())
		}
		w.Prog = Op(name, kids...)
		if r.P(0.3) {
			w.Prog = Op("not", w.Prog)
		}
	} else if r.P(0.7) {
		for i := 0; i < 10; i++ {
			g.left = 200
			if k.Budget > 0 {
				g.left = k.Budget
			}
			w.Prog = illExpr(g, k.MaxDepth)
			if w.Prog.K == KOp || w.Prog.K == KIf {
				break
			}
		}
		if w.Prog.K != KOp && w.Prog.K != KIf {
			g.left = 10
			w.Prog = Op("eq", w.Prog, illExpr(g, 2))
		}
	} else {
		w.Prog = g.Program()
	}
	w.Cfg = g.C
	w.Cfg.ViaDirect = r.P(0.3)
	w.Cfg.DirStyle = r.Intn(8)
	w.Cfg.ViaAPI = r.P(0.4)
	m := r.Intn(16)
	w.Masks = []int{m, []int{15 - m, 0, 15}[r.Intn(3)]}
	// two of the four event modes per world (many diverse worlds beat few exhaustive ones)
	ev := []string{"none", "report", "debug", "both"}
	i, j := r.Intn(4), r.Intn(3)
	if j >= i {
		j++
	}
	w.Extra = map[string]string{"events": ev[i] + "," + ev[j]}
	if r.P(0.3) {
		w.Extra["real"] = "1"
	}
	nb := r.Range(2, 4)
	for i := 0; i < nb; i++ {
		p := Plan{Bind: g.Binding()}
		// ill-typed bindings: any value for any variable, nil included
		for _, v := range w.Cfg.Vars {
			if r.P(0.3) {
				if r.P(0.3) {
					p.Bind[v.Name] = VNil()
				} else {
					p.Bind[v.Name] = g.Value([]Ty{TBool, TInt, TStr, TIntList, TStrList, TIntSet, TStrSet}[r.Intn(7)])
				}
			}
		}
		for _, v := range w.Cfg.Vars {
			if r.P(0.25) {
				p.Unavail = append(p.Unavail, v.Name)
			}
		}
		if len(referencedVars(w.Prog)) == 0 && r.P(0.5) {
			p.NilCtx = true // no variable to read: the caller may pass no Ctx at all
		}
		p.RawErr = r.P(0.1)
		w.Calls = append(w.Calls, p)
	}
	w.EnumFaults = r.P(0.5)
	return w
}

var c06kinds = []string{"eval", "tryeval", "evalbool", "tryevalbool"}

func (propC06) Run(w *World, st *Stats) *Violation {
	ops := SpecMap(w.Cfg.Ops)
	wh := w.Hash()
	st.World(wh)
	sawErr, sawVal := false, false
	masks := w.Masks
	if len(masks) == 0 {
		masks = []int{w.Cfg.OptMask}
	}
	events := []string{"", "report", "debug", "both"}
	if e, ok := w.Extra["events"]; ok {
		events = nil
		for _, x := range strings.Split(e, ",") {
			if x == "none" {
				x = ""
			}
			events = append(events, x)
		}
	}
	if w.Cfg.Event != "" {
		events = []string{w.Cfg.Event}
	}
	for _, mask := range masks {
		for _, evm := range events {
			cw := w.Clone()
			cw.Masks = []int{mask}
			cw.Cfg.Event = evm
			cenv := NewEnv(ops, &Plan{})
			cenv.Phase = "compile"
			c, err, pan := CompileSpec(&cw.Cfg, w.Prog, mask, w.Cfg.ViaDirect, cenv)
			st.Evals++
			if pan != nil {
				return viol(cw, "compile-panic", "Compile panicked under %s: %v", maskName(mask), pan)
			}
			if err != nil {
				if c.Expr != nil {
					return viol(cw, "compile-both", "Compile returned both a program and an error")
				}
				st.Probe("compile_rejected")
				continue // a rejected program is a legitimate outcome
			}
			if c.Expr == nil {
				return viol(cw, "compile-nil", "Compile returned (nil, nil)")
			}
			for _, kind := range []string{"dump", "dumptable", "dumptable_skip"} {
				o := c.RunEnv(NewEnv(ops, &Plan{}), kind)
				st.Evals++
				if o.Panic != nil {
					return viol(cw, "panic", "%s panicked: %v\n%s", kind, o.Panic, o.Stack)
				}
			}
			nodes := c.NodeCount()
			st.T("world %x mask %d ev=%s nodes=%d src=%s", wh, mask, evm, nodes, c.Src)
			switch s := c.StackSize(); {
			case s <= 8:
				st.Probe("stack_class_8")
			case s <= 16:
				st.Probe("stack_class_16")
			default:
				st.Probe("stack_class_size")
			}
			one := func(p *Plan) (*Violation, int) {
				o := c.Run(ops, p, "eval")
				st.Evals++
				st.Steps += int64(o.Env.N)
				st.AddFaults(o.Env.Fired)
				st.Path(pathHash(&o) ^ hash64(p.Kind))
				st.T(" %s -> %s", p.Canon(), o.Class())
				if o.Panic != nil {
					return viol(narrowed(cw, p), "panic", "%s panicked: %v\n%s", p.Kind, o.Panic, trimStack(o.Stack)), 0
				}
				if o.Err != nil {
					sawErr = true
				} else {
					sawVal = true
				}
				if evm != "" {
					if msg, ok := checkLoopEvents(o.Events, nodes); !ok {
						return viol(narrowed(cw, p), "loop-order", "%s", msg), 0
					}
					st.ProbeN("loop_events", len(o.Events))
				}
				return nil, o.Env.N
			}
			// the library's own fetchers (NewCtxFromVars), with bindings that may
			// leave referenced variables out: an error is fine, a panic is not
			if w.Extra["real"] == "1" {
				for i := range w.Calls {
					vals := map[string]interface{}{}
					for n, v := range w.Calls[i].Bind {
						if v.T != "nil" {
							vals[n] = v.Go()
						}
					}
					for _, kind := range c06kinds {
						env := NewEnv(ops, &Plan{Kind: kind})
						c.Host.CompileEnv = env
						o := c.RunCtx(eval.NewCtxFromVars(c.Conf, vals), env, kind)
						c.Host.CompileEnv = nil
						st.Evals++
						if o.Panic != nil {
							rw := narrowed(cw, &w.Calls[i])
							rw.Extra = map[string]string{"real": "1"}
							return viol(rw, "panic", "%s with the library's own fetcher (NewCtxFromVars) panicked: %v\n%s", kind, o.Panic, trimStack(o.Stack))
						}
					}
				}
				// contexts built too early: before the variables with the largest keys
				// were registered, or before any was. Variables the context does not
				// know are an error at most
				var regd []VarSpec
				for _, v := range cw.Cfg.Vars {
					if v.Reg {
						regd = append(regd, v)
					}
				}
				sort.Slice(regd, func(i, j int) bool { return regd[i].Key < regd[j].Key })
				if len(regd) > 0 && len(w.Calls) > 0 {
					for _, keep := range []int{0, len(regd) / 2, len(regd) - 1} {
						early := cw.Cfg
						early.Vars = regd[:keep]
						earlyCC := BuildConfig(&early, &OpHost{Specs: ops}, mask, true)
						vals := map[string]interface{}{}
						for _, v := range regd[:keep] {
							if b, ok := w.Calls[0].Bind[v.Name]; ok && b.T != "nil" {
								vals[v.Name] = b.Go()
							}
						}
						for _, kind := range c06kinds {
							env := NewEnv(ops, &Plan{Kind: kind})
							c.Host.CompileEnv = env
							o := c.RunCtx(eval.NewCtxFromVars(earlyCC, vals), env, kind)
							c.Host.CompileEnv = nil
							st.Evals++
							if o.Panic != nil {
								rw := narrowed(cw, &w.Calls[0])
								rw.Extra = map[string]string{"real": "1"}
								return viol(rw, "panic", "%s with a context built by NewCtxFromVars when only %d of the %d variables were registered panicked: %v\n%s", kind, keep, len(regd), o.Panic, trimStack(o.Stack))
							}
						}
					}
					st.Probe("early_context_probes")
				}
				st.Probe("real_fetcher_worlds")
			}
			for i := range w.Calls {
				for _, kind := range c06kinds {
					p := w.Calls[i].Clone()
					p.Kind = kind
					if kind == "eval" || kind == "evalbool" {
						p.Unavail = nil
					}
					v, n := one(&p)
					if v != nil {
						return v
					}
					if w.EnumFaults && len(p.FailAt) == 0 && p.CancelFrom == 0 {
						for k := 0; k < n; k++ {
							q := p.Clone()
							q.FailAt = []int{k}
							if v, _ := one(&q); v != nil {
								return v
							}
						}
					}
				}
			}
		}
	}
	if w.Prog.Size() >= 3 && sawErr && sawVal {
		st.Nontrivial(wh)
	}
	st.Sample(w.Canon())
	return nil
}

func trimStack(s string) string {
	lines := strings.Split(s, "\n")
	var keep []string
	for i, l := range lines {
		if strings.Contains(l, "onheap/eval") || strings.Contains(l, "/repo/") {
			keep = append(keep, l)
			if i+1 < len(lines) && strings.HasPrefix(lines[i+1], "\t") {
				keep = append(keep, lines[i+1])
			}
		}
		if len(keep) > 12 {
			break
		}
	}
	return strings.Join(keep, "\n")
}

var _ = fmt.Sprint
