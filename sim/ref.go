package sim

import (
	"github.com/onheap/eval"
	"fmt"
	"strconv"
	"strings"
	"time"
)

// ---------------------------------------------------------------------------
// Reference semantics. Written from the README operator table and the property
// statements; shares no code with /repo. Built-in failures are reported as
// *BuiltinErr: the oracle only ever predicts *that* a built-in fails, never its
// message.
// ---------------------------------------------------------------------------

type BuiltinErr struct {
	Op  string
	Why string
}

func (e *BuiltinErr) Error() string { return "builtin " + e.Op + ": " + e.Why }

// OutOfDomain marks a run that left the domain on which the documented
// semantics is defined (e.g. a non-boolean operand of and/or, or a list under
// eq). The caller skips such runs instead of guessing.
type OutOfDomain struct{ Why string }

func (e *OutOfDomain) Error() string { return "out of domain: " + e.Why }

var builtinNames = map[string]string{
	"add": "add", "+": "add", "sub": "sub", "-": "sub", "mul": "mul", "*": "mul",
	"div": "div", "/": "div", "mod": "mod", "%": "mod",
	"and": "and", "&": "and", "&&": "and", "or": "or", "|": "or", "||": "or",
	"xor": "xor", "not": "not", "!": "not",
	"eq": "eq", "=": "eq", "==": "eq", "ne": "ne", "!=": "ne",
	"gt": "gt", ">": "gt", "lt": "lt", "<": "lt", "ge": "ge", ">=": "ge", "le": "le", "<=": "le",
	"between": "between", "in": "in", "overlap": "overlap",
	"date": "date", "to_date": "date", "datetime": "datetime", "to_datetime": "datetime",
	"t_date": "t_date", "t_time": "t_time", "td_date": "td_date", "td_time": "td_time",
	"version": "version", "to_version": "version", "t_version": "version",
}

// IsBuiltin reports whether name is in the documented built-in table.
func IsBuiltin(name string) bool { _, ok := builtinNames[name]; return ok }

func berr(op, why string) (interface{}, error) { return nil, &BuiltinErr{Op: op, Why: why} }

// ApplyBuiltin applies a built-in (other than the short-circuit handling of
// and/or, which lives in the interpreters) to fully evaluated arguments.
func ApplyBuiltin(name string, a []interface{}) (interface{}, error) {
	canon, ok := builtinNames[name]
	if !ok {
		panic("sim: not a builtin: " + name)
	}
	switch canon {
	case "add", "sub", "mul", "div", "mod":
		if len(a) < 2 {
			return berr(canon, "operand count")
		}
		var acc int64
		for i, x := range a {
			v, ok := x.(int64)
			if !ok {
				return berr(canon, "operand type")
			}
			if i == 0 {
				acc = v
				continue
			}
			switch canon {
			case "add":
				acc += v
			case "sub":
				acc -= v
			case "mul":
				acc *= v
			case "div":
				if v == 0 {
					return berr(canon, "division by zero")
				}
				if acc == -1<<63 && v == -1 {
					acc = -1 << 63 // two's-complement wrap-around
				} else {
					acc /= v
				}
			case "mod":
				if v == 0 {
					return berr(canon, "division by zero")
				}
				if v == -1 {
					acc = 0
				} else {
					acc %= v
				}
			}
		}
		return acc, nil
	case "and", "or", "xor":
		if len(a) < 2 {
			return berr(canon, "operand count")
		}
		var acc bool
		for i, x := range a {
			v, ok := x.(bool)
			if !ok {
				return berr(canon, "operand type")
			}
			if i == 0 {
				acc = v
				continue
			}
			switch canon {
			case "and":
				acc = acc && v
			case "or":
				acc = acc || v
			case "xor":
				acc = acc != v
			}
		}
		return acc, nil
	case "not":
		if len(a) != 1 {
			return berr(canon, "operand count")
		}
		v, ok := a[0].(bool)
		if !ok {
			return berr(canon, "operand type")
		}
		return !v, nil
	case "eq", "ne":
		if len(a) < 2 || (canon == "ne" && len(a) != 2) {
			return berr(canon, "operand count")
		}
		for _, x := range a {
			switch x.(type) {
			case bool, int64, string:
			case []int64, []string, map[int64]struct{}, map[string]struct{}:
				// a list or set is an operand of the wrong type for eq/ne,
				// wherever it stands and whatever the other operands are
				return berr(canon, "operand type")
			default:
				// equality of nil and of values of other Go types is not part of
				// the documented semantics ("two values are equal")
				return nil, &OutOfDomain{Why: "eq/ne over a non-scalar"}
			}
		}
		all := true
		for _, x := range a[1:] {
			if x != a[0] {
				all = false
			}
		}
		if canon == "ne" {
			return !all, nil
		}
		return all, nil
	case "gt", "lt", "ge", "le":
		if len(a) != 2 {
			return berr(canon, "operand count")
		}
		x, ok1 := a[0].(int64)
		y, ok2 := a[1].(int64)
		if !ok1 || !ok2 {
			return berr(canon, "operand type")
		}
		switch canon {
		case "gt":
			return x > y, nil
		case "lt":
			return x < y, nil
		case "ge":
			return x >= y, nil
		}
		return x <= y, nil
	case "between":
		if len(a) != 3 {
			return berr(canon, "operand count")
		}
		v, ok0 := a[0].(int64)
		lo, ok1 := a[1].(int64)
		hi, ok2 := a[2].(int64)
		if !ok0 || !ok1 || !ok2 {
			return berr(canon, "operand type")
		}
		return lo <= v && v <= hi, nil
	case "in":
		if len(a) != 2 {
			return berr(canon, "operand count")
		}
		switch v := a[0].(type) {
		case int64:
			switch l := a[1].(type) {
			case []int64:
				for _, x := range l {
					if x == v {
						return true, nil
					}
				}
				return false, nil
			case map[int64]struct{}:
				_, ok := l[v]
				return ok, nil
			case []string:
				if len(l) == 0 { // the empty list literal is an empty list of either type
					return false, nil
				}
			}
			return berr(canon, "element type mismatch")
		case string:
			switch l := a[1].(type) {
			case []string:
				for _, x := range l {
					if x == v {
						return true, nil
					}
				}
				return false, nil
			case map[string]struct{}:
				_, ok := l[v]
				return ok, nil
			case []int64:
				if len(l) == 0 {
					return nil, &OutOfDomain{Why: "in: string probe against an empty int list value"}
				}
			}
			return berr(canon, "element type mismatch")
		}
		return berr(canon, "probe type")
	case "overlap":
		if len(a) != 2 {
			return berr(canon, "operand count")
		}
		switch x := a[0].(type) {
		case []int64:
			switch y := a[1].(type) {
			case []int64:
				for _, p := range x {
					for _, q := range y {
						if p == q {
							return true, nil
						}
					}
				}
				return false, nil
			case []string:
				if len(y) == 0 {
					return false, nil
				}
			}
			return berr(canon, "element type mismatch")
		case []string:
			switch y := a[1].(type) {
			case []string:
				for _, p := range x {
					for _, q := range y {
						if p == q {
							return true, nil
						}
					}
				}
				return false, nil
			case []int64:
				if len(x) == 0 {
					// "(overlap () (1 2))": the empty list literal is an empty
					// list of either element type on either side (C17)
					return false, nil
				}
			}
			return berr(canon, "element type mismatch")
		}
		return berr(canon, "operand type")
	case "date", "datetime":
		if len(a) != 1 && len(a) != 2 {
			return berr(canon, "operand count")
		}
		layout := "2006-01-02"
		if canon == "datetime" {
			layout = "2006-01-02 15:04:05"
		}
		if len(a) == 2 {
			l, ok := a[1].(string)
			if !ok {
				return berr(canon, "layout type")
			}
			layout = l
		}
		return refParseTime(canon, a[0], layout)
	case "t_date", "t_time":
		if len(a) != 2 {
			return berr(canon, "operand count")
		}
		l, ok := a[1].(string)
		if !ok {
			return berr(canon, "layout type")
		}
		return refParseTime(canon, a[0], l)
	case "td_date":
		if len(a) != 1 {
			return berr(canon, "operand count")
		}
		return refParseTime(canon, a[0], "2006-01-02")
	case "td_time":
		if len(a) != 1 {
			return berr(canon, "operand count")
		}
		return refParseTime(canon, a[0], "2006-01-02 15:04:05")
	case "version":
		if len(a) != 1 && len(a) != 2 {
			return berr(canon, "operand count")
		}
		n := int64(3)
		if len(a) == 2 {
			l, ok := a[1].(int64)
			if !ok {
				return berr(canon, "length type")
			}
			if l < 1 || l > 4 {
				return berr(canon, "valid length out of range")
			}
			n = l
		}
		s, ok := a[0].(string)
		if !ok {
			return berr(canon, "operand type")
		}
		return refVersion(s, int(n))
	}
	panic("sim: unhandled builtin " + canon)
}

// refVersion: base-10000 positional value of the first n components, missing
// components read as 0. Domain: every component is 1-4 decimal digits and
// anything else the generator produces on purpose is an error case
// (empty/non-numeric/too large within the first n components); components
// after the first n are ignored. Signed components are out of domain.
func refVersion(s string, n int) (interface{}, error) {
	parts := strings.Split(s, ".")
	var acc int64
	for i := 0; i < n; i++ {
		acc *= 10000
		if i >= len(parts) {
			continue
		}
		p := parts[i]
		if p == "" {
			return berr("version", "empty component")
		}
		if (p[0] == '-' || p[0] == '+') && len(p) > 1 && strings.Trim(p[1:], "0123456789") == "" {
			// a signed component is not a version in any documented sense and the
			// statement does not say what it means: nothing is demanded
			return nil, &OutOfDomain{Why: "version component with a sign"}
		}
		for _, c := range p {
			if c < '0' || c > '9' {
				return berr("version", "non-numeric component")
			}
		}
		if len(p) > 18 {
			return berr("version", "component too large")
		}
		v, _ := strconv.ParseInt(p, 10, 64)
		if v >= 10000 {
			return berr("version", "component too large")
		}
		acc += v
	}
	// components beyond the valid length do not count ("the count of valid
	// version numbers"), whatever they contain
	return acc, nil
}

// The layouts the generator uses; each is parsed by hand here.
var refLayouts = map[string]string{
	"2006-01-02":                "Y-M-D",
	"2006-01-02T15:04:05Z07:00": "Y-M-DTh:m:sZ", // Z: "Z" or a numeric zone offset +hh:mm / -hh:mm
	"2006-01-02 15:04:05":       "Y-M-D h:m:s",
	"2006/01/02":                "Y/M/D",
	"20060102":                  "YMD",
	"02.01.2006 15:04":          "D.M.Y h:m",
}

func refParseTime(op string, v interface{}, layout string) (interface{}, error) {
	s, ok := v.(string)
	if !ok {
		return berr(op, "operand type")
	}
	pat, ok := refLayouts[layout]
	if !ok {
		return nil, &OutOfDomain{Why: "layout outside the reference pool"}
	}
	var Y, M, D, h, m, sec int
	zone := 0 // seconds east of UTC
	i := 0
	num := func(w int) (int, bool) {
		if i+w > len(s) {
			return 0, false
		}
		x := 0
		for k := 0; k < w; k++ {
			c := s[i+k]
			if c < '0' || c > '9' {
				return 0, false
			}
			x = x*10 + int(c-'0')
		}
		i += w
		return x, true
	}
	M, D = 1, 1
	for _, c := range pat {
		var ok bool
		switch c {
		case 'Y':
			Y, ok = num(4)
		case 'M':
			M, ok = num(2)
		case 'D':
			D, ok = num(2)
		case 'h':
			h, ok = num(2)
		case 'm':
			m, ok = num(2)
		case 's':
			sec, ok = num(2)
		case 'Z':
			if i < len(s) && s[i] == 'Z' {
				i++
				ok = true
				break
			}
			if i < len(s) && (s[i] == '+' || s[i] == '-') {
				neg := s[i] == '-'
				i++
				zh, ok1 := num(2)
				ok2 := i < len(s) && s[i] == ':'
				i++
				zm, ok3 := num(2)
				ok = ok1 && ok2 && ok3 && zh <= 23 && zm <= 59
				zone = zh*3600 + zm*60
				if neg {
					zone = -zone
				}
			}
		default:
			ok = i < len(s) && s[i] == byte(c)
			i++
		}
		if !ok {
			return berr(op, "text does not match layout")
		}
	}
	if i != len(s) {
		return berr(op, "trailing text")
	}
	if M < 1 || M > 12 || D < 1 || h > 23 || m > 59 || sec > 59 {
		return berr(op, "field out of range")
	}
	dim := []int{31, 28, 31, 30, 31, 30, 31, 31, 30, 31, 30, 31}[M-1]
	if M == 2 && (Y%4 == 0 && (Y%100 != 0 || Y%400 == 0)) {
		dim = 29
	}
	if D > dim {
		return berr(op, "day out of range")
	}
	return time.Date(Y, time.Month(M), D, h, m, sec, 0, time.UTC).Unix() - int64(zone), nil
}

// ---------------------------------------------------------------------------
// Interpreters
// ---------------------------------------------------------------------------

// Interp evaluates a tree against an Env (variable fetches and user-operator
// calls go through it and are therefore logged and subject to its fault plan).
type Interp struct {
	Consts map[string]interface{}
	Env    *Env
	// Applied, when non-nil, receives every operator application in the order
	// left-to-right evaluation performs them (C12).
	Applied *[]Applied
	// FastPair, when non-nil, models the one piece of extra work C03 permits
	// under FastEvaluation: at an and/or whose two operands are both leaves and
	// whose first operand already decides, the second leaf may be fetched as
	// well. It is asked once per such point and answers whether this run takes
	// the optional fetch.
	FastPair func(second *Node) bool
	// IfLazy makes Strict evaluate only the taken branch of an `if` (every
	// and/or operand is still evaluated): "every reachable operand".
	IfLazy bool
}

// Applied is one operator application as the reference evaluation performs it.
type Applied struct {
	Name     string
	Args     []interface{}
	Res      interface{}
	Err      error
	Optional bool // application of and/or itself: the engine may decide it by jumping
}

func (it *Interp) leaf(n *Node) (interface{}, error) {
	switch n.K {
	case KLit:
		return n.Val.Go(), nil
	case KConst:
		v, ok := it.Consts[n.Name]
		if !ok {
			panic("sim: unknown constant " + n.Name)
		}
		return v, nil
	case KVar:
		return it.Env.Get(0, n.Name)
	}
	panic("sim: not a leaf")
}

func (it *Interp) note(a Applied) {
	if it.Applied != nil {
		*it.Applied = append(*it.Applied, a)
	}
}

// L2R is the documented evaluation order: operands left to right, and/or stop
// at the first deciding operand, if evaluates its condition and then only the
// chosen branch.
func (it *Interp) L2R(n *Node) (interface{}, error) {
	switch n.K {
	case KLit, KConst, KVar:
		return it.leaf(n)
	case KIf:
		c, err := it.L2R(n.Args[0])
		if err != nil {
			return nil, err
		}
		b, ok := c.(bool)
		if !ok {
			return berr("if", "non-boolean condition")
		}
		if b {
			return it.L2R(n.Args[1])
		}
		return it.L2R(n.Args[2])
	}
	if n.IsAnd() || n.IsOr() {
		if len(n.Args) < 2 {
			return nil, &OutOfDomain{Why: "and/or with fewer than two operands"}
		}
		absorbing := n.IsOr()
		vals := make([]interface{}, 0, len(n.Args))
		fastPair := it.FastPair != nil && len(n.Args) == 2 && n.Args[0].IsLeaf() && n.Args[1].IsLeaf()
		for _, a := range n.Args {
			v, err := it.L2R(a)
			if err != nil {
				return nil, err
			}
			b, ok := v.(bool)
			if !ok {
				return nil, &OutOfDomain{Why: "non-boolean operand of and/or"}
			}
			vals = append(vals, v)
			if b == absorbing {
				if fastPair && a == n.Args[0] && n.Args[1].K == KVar && it.FastPair(n.Args[1]) {
					if _, err := it.leaf(n.Args[1]); err != nil {
						return nil, err
					}
				}
				it.note(Applied{Name: n.Name, Args: vals, Res: absorbing, Optional: true})
				return absorbing, nil
			}
		}
		it.note(Applied{Name: n.Name, Args: vals, Res: !absorbing, Optional: true})
		return !absorbing, nil
	}
	args := make([]interface{}, len(n.Args))
	for i, a := range n.Args {
		v, err := it.L2R(a)
		if err != nil {
			return nil, err
		}
		args[i] = v
	}
	var res interface{}
	var err error
	if IsBuiltin(n.Name) {
		res, err = ApplyBuiltin(n.Name, args)
		if _, ood := err.(*OutOfDomain); ood {
			return nil, err
		}
	} else {
		res, err = it.Env.CallOp(n.Name, args)
	}
	it.note(Applied{Name: n.Name, Args: CopyVals(args), Res: res, Err: err})
	return res, err
}

// Strict evaluates every operand of every operator and both branches of every
// if. It answers one question only: can anything in this program fail under
// this binding ("evaluating every reachable operand succeeds" read
// conservatively)? The value it returns is the L2R value when nothing fails.
func (it *Interp) Strict(n *Node) (interface{}, error) {
	switch n.K {
	case KLit, KConst, KVar:
		return it.leaf(n)
	case KIf:
		c, err := it.Strict(n.Args[0])
		if err != nil {
			return nil, err
		}
		if it.IfLazy {
			// only what is reachable: the branch not taken is never evaluated
			// under any configuration
			cb, ok := c.(bool)
			if !ok {
				return berr("if", "non-boolean condition")
			}
			if cb {
				return it.Strict(n.Args[1])
			}
			return it.Strict(n.Args[2])
		}
		a, err := it.Strict(n.Args[1])
		if err != nil {
			return nil, err
		}
		b, err := it.Strict(n.Args[2])
		if err != nil {
			return nil, err
		}
		cb, ok := c.(bool)
		if !ok {
			return berr("if", "non-boolean condition")
		}
		if cb {
			return a, nil
		}
		return b, nil
	}
	args := make([]interface{}, len(n.Args))
	for i, a := range n.Args {
		v, err := it.Strict(a)
		if err != nil {
			return nil, err
		}
		args[i] = v
	}
	if IsBuiltin(n.Name) {
		return ApplyBuiltin(n.Name, args)
	}
	return it.Env.CallOp(n.Name, args)
}

// Unknown is the third truth value of the Kleene interpreter.
type unknownT struct{}

var Unknown = unknownT{}

// Kleene is three-valued evaluation: a variable the plan marks unavailable is
// Unknown; and is false if any operand is false, Unknown if none is false and
// some is Unknown; dually or; if with an Unknown condition is Unknown; any
// other operator is Unknown iff some operand is. It must only be used on
// programs in which nothing fails (C05's domain).
func (it *Interp) Kleene(n *Node) (interface{}, error) {
	switch n.K {
	case KLit, KConst:
		return it.leaf(n)
	case KVar:
		if it.Env.unavail[n.Name] {
			return Unknown, nil
		}
		return it.leaf(n)
	case KIf:
		c, err := it.Kleene(n.Args[0])
		if err != nil {
			return nil, err
		}
		if c == Unknown {
			return Unknown, nil
		}
		b, ok := c.(bool)
		if !ok {
			return berr("if", "non-boolean condition")
		}
		if b {
			return it.Kleene(n.Args[1])
		}
		return it.Kleene(n.Args[2])
	}
	args := make([]interface{}, len(n.Args))
	anyUnknown := false
	for i, a := range n.Args {
		v, err := it.Kleene(a)
		if err != nil {
			return nil, err
		}
		args[i] = v
		if v == Unknown {
			anyUnknown = true
		}
	}
	if n.IsAnd() || n.IsOr() {
		absorbing := n.IsOr()
		for _, v := range args {
			if v == Unknown {
				continue
			}
			b, ok := v.(bool)
			if !ok {
				return nil, &OutOfDomain{Why: "non-boolean operand of and/or"}
			}
			if b == absorbing {
				return absorbing, nil
			}
		}
		if anyUnknown {
			return Unknown, nil
		}
		return !absorbing, nil
	}
	if anyUnknown {
		return Unknown, nil
	}
	if IsBuiltin(n.Name) {
		return ApplyBuiltin(n.Name, args)
	}
	v, err := it.Env.CallOp(n.Name, args)
	if err == nil && v == eval.DNE {
		return Unknown, nil // an operator that itself reports "not available"
	}
	return v, err
}

func fmtErr(err error) string {
	if err == nil {
		return "<nil>"
	}
	return fmt.Sprintf("%T(%v)", err, err)
}
