package sim

import (
	"fmt"
	"math"
	"reflect"
	"sort"
)

// SnapHash walks everything reachable from x by reflection — unexported fields
// included, which reflect permits for reading — and hashes kinds, lengths,
// scalars, dynamic types of interface values, map contents in sorted key order
// and function values by code pointer. Channels are skipped (the user-owned
// EventChan). It hard-codes no field names, so it keeps working when /repo is
// refactored, and it needs no hook in /repo.
func SnapHash(x interface{}) uint64 {
	s := &snapper{h: 0xcbf29ce484222325, seen: map[uintptr]bool{}}
	s.walk(reflect.ValueOf(x), 0)
	return s.h
}

// SnapDiff renders the same walk as text lines; used only to explain a
// difference once one has been found.
func SnapText(x interface{}) []string {
	s := &snapper{h: 0xcbf29ce484222325, seen: map[uintptr]bool{}, text: true}
	s.walk(reflect.ValueOf(x), 0)
	return s.lines
}

type snapper struct {
	h     uint64
	seen  map[uintptr]bool
	text  bool
	lines []string
	path  []string
}

func (s *snapper) mix(v uint64) {
	s.h = (s.h ^ v) * 0x100000001b3
	s.h ^= s.h >> 29
}

func (s *snapper) str(x string) { s.mix(hash64(x)) }

func (s *snapper) note(format string, a ...interface{}) {
	if s.text {
		p := ""
		for _, e := range s.path {
			p += e
		}
		s.lines = append(s.lines, p+" = "+fmt.Sprintf(format, a...))
	}
}

func (s *snapper) push(e string) { s.path = append(s.path, e) }
func (s *snapper) pop()          { s.path = s.path[:len(s.path)-1] }

func (s *snapper) walk(v reflect.Value, depth int) {
	if depth > 64 {
		return
	}
	if !v.IsValid() {
		s.mix(1)
		s.note("invalid")
		return
	}
	s.mix(uint64(v.Kind()) + 17)
	switch v.Kind() {
	case reflect.Bool:
		if v.Bool() {
			s.mix(3)
		} else {
			s.mix(5)
		}
		s.note("%v", v.Bool())
	case reflect.Int, reflect.Int8, reflect.Int16, reflect.Int32, reflect.Int64:
		s.mix(uint64(v.Int()))
		s.note("%d", v.Int())
	case reflect.Uint, reflect.Uint8, reflect.Uint16, reflect.Uint32, reflect.Uint64, reflect.Uintptr:
		s.mix(v.Uint())
		s.note("%d", v.Uint())
	case reflect.Float32, reflect.Float64:
		f := v.Float()
		if f != f {
			s.mix(0x7ff8dead)
		} else {
			s.mix(math.Float64bits(f))
		}
		s.note("%v", f)
	case reflect.String:
		s.str(v.String())
		s.note("%q", v.String())
	case reflect.Ptr:
		if v.IsNil() {
			s.mix(7)
			s.note("nil")
			return
		}
		p := v.Pointer()
		if s.seen[p] {
			s.mix(11)
			return
		}
		s.seen[p] = true
		s.walk(v.Elem(), depth+1)
		delete(s.seen, p) // the same node may legitimately be referenced twice; only cycles are cut
	case reflect.Interface:
		if v.IsNil() {
			s.mix(13)
			s.note("nil interface")
			return
		}
		e := v.Elem()
		s.str(e.Type().String())
		s.push("(" + e.Type().String() + ")")
		s.walk(e, depth+1)
		s.pop()
	case reflect.Struct:
		t := v.Type()
		for i := 0; i < v.NumField(); i++ {
			s.push("." + t.Field(i).Name)
			s.walk(v.Field(i), depth+1)
			s.pop()
		}
	case reflect.Slice:
		if v.IsNil() {
			s.mix(19)
			s.note("nil slice")
			return
		}
		s.mix(uint64(v.Len()))
		s.note("len %d", v.Len())
		for i := 0; i < v.Len(); i++ {
			s.push(fmt.Sprintf("[%d]", i))
			s.walk(v.Index(i), depth+1)
			s.pop()
		}
	case reflect.Array:
		for i := 0; i < v.Len(); i++ {
			s.push(fmt.Sprintf("[%d]", i))
			s.walk(v.Index(i), depth+1)
			s.pop()
		}
	case reflect.Map:
		if v.IsNil() {
			s.mix(23)
			s.note("nil map")
			return
		}
		s.mix(uint64(v.Len()))
		s.note("map len %d", v.Len())
		type kv struct {
			k  string
			kh uint64
			v  reflect.Value
		}
		var kvs []kv
		it := v.MapRange()
		for it.Next() {
			ks := &snapper{h: 0xcbf29ce484222325, seen: map[uintptr]bool{}, text: true}
			ks.walk(it.Key(), depth+1)
			name := ""
			for _, l := range ks.lines {
				name += l
			}
			kvs = append(kvs, kv{k: name, kh: ks.h, v: it.Value()})
		}
		sort.Slice(kvs, func(i, j int) bool {
			if kvs[i].kh != kvs[j].kh {
				return kvs[i].kh < kvs[j].kh
			}
			return kvs[i].k < kvs[j].k
		})
		for _, e := range kvs {
			s.mix(e.kh)
			s.push("{" + e.k + "}")
			s.walk(e.v, depth+1)
			s.pop()
		}
	case reflect.Func:
		if v.IsNil() {
			s.mix(29)
			s.note("nil func")
			return
		}
		s.mix(uint64(v.Pointer()))
		s.note("func@%x", v.Pointer())
	case reflect.Chan:
		// user-owned (Expr.EventChan): not part of the compiled program
		s.mix(31)
	case reflect.UnsafePointer:
		s.mix(37)
	default:
		s.mix(41)
	}
}

// SnapDiff explains the first difference between two text snapshots.
func SnapDiff(a, b []string) string {
	for i := 0; i < len(a) || i < len(b); i++ {
		var x, y string
		if i < len(a) {
			x = a[i]
		}
		if i < len(b) {
			y = b[i]
		}
		if x != y {
			return fmt.Sprintf("before: %s\nafter:  %s", x, y)
		}
	}
	return "(no textual difference)"
}
