package sim

import (
	"encoding/json"
	"fmt"
	"os"
	"sort"
	"strconv"
	"strings"
)

// World is one fully explicit simulated run (or family of runs when
// EnumFaults / EnumSplits ask the runner to enumerate systematically).
type World struct {
	Prop string  `json:"prop"`
	Seed uint64  `json:"seed"` // how it was found; replay does not use it
	Note string  `json:"note,omitempty"`
	Cfg  CfgSpec `json:"cfg"`
	Prog *Node   `json:"prog,omitempty"`
	Src  string  `json:"src,omitempty"` // exact text handed to Compile (derived from Prog; informational)

	Progs []*Node    `json:"progs,omitempty"` // further programs (multi-expression worlds)
	Exprs []ExprSpec `json:"exprs,omitempty"` // shared compiled expressions (multi-task worlds)

	// Calls are the calls into the library with what the environment does during each.
	Calls []Plan `json:"calls,omitempty"`

	// Systematic enumeration requested from the runner.
	EnumFaults bool `json:"enum_faults,omitempty"` // fail every seam call once, one run each
	EnumSplits bool `json:"enum_splits,omitempty"` // every available/unavailable split

	Masks []int  `json:"masks,omitempty"` // option subsets to run under
	API   string `json:"api,omitempty"`   // entry point variant

	// Histories / multi-task worlds.
	Steps []Step            `json:"steps,omitempty"`
	Tasks [][]Step          `json:"tasks,omitempty"`
	Sched []int             `json:"sched,omitempty"`  // explicit schedule: scheduler choices in order
	ChCap int               `json:"ch_cap,omitempty"` // EventChan capacity
	Extra map[string]string `json:"extra,omitempty"`
}

// ExprSpec says how one shared expression is compiled.
type ExprSpec struct {
	Prog  int    `json:"prog"`
	Mask  int    `json:"mask"`
	Event string `json:"event,omitempty"`
}

// Step is one API call of a history or of a task script.
type Step struct {
	Op    string           `json:"op"`             // eval | tryeval | dump | dumptable | compile | regkey | regvarop | copyconf | ...
	Expr  int              `json:"expr,omitempty"` // which shared Expr / program
	Plan  *Plan            `json:"plan,omitempty"`
	Name  string           `json:"name,omitempty"`
	Arg   string           `json:"arg,omitempty"`
	Mask  int              `json:"mask,omitempty"`
	Keys  map[string]int16 `json:"keys,omitempty"`
	Names []string         `json:"names,omitempty"`
}

func (w *World) Clone() *World {
	b, err := json.Marshal(w)
	if err != nil {
		panic(err)
	}
	var c World
	if err := json.Unmarshal(b, &c); err != nil {
		panic(err)
	}
	return &c
}

func (w *World) JSON() []byte {
	if w.Prog != nil {
		w.Src = w.Prog.Src()
	}
	b, err := json.MarshalIndent(w, "", " ")
	if err != nil {
		panic(err)
	}
	return b
}

func LoadWorld(path string) (*World, error) {
	b, err := os.ReadFile(path)
	if err != nil {
		return nil, err
	}
	var w World
	if err := json.Unmarshal(b, &w); err != nil {
		return nil, err
	}
	return &w, nil
}

// Hash identifies a world up to everything that influences its run.
func (w *World) Hash() uint64 {
	c := *w // the seed, the note and the derived text do not influence the run
	c.Seed, c.Note, c.Src = 0, "", ""
	b, _ := json.Marshal(&c)
	return hash64(string(b))
}

// Canon is a compact human-readable rendering used in evidence samples.
func (w *World) Canon() map[string]interface{} {
	m := map[string]interface{}{"prop": w.Prop, "seed": strconv.FormatUint(w.Seed, 10)}
	if w.Prog != nil {
		m["src"] = w.Prog.Src()
	}
	if len(w.Progs) > 0 {
		var s []string
		for _, p := range w.Progs {
			s = append(s, p.Src())
		}
		m["srcs"] = s
	}
	if len(w.Calls) > 0 {
		var cs []string
		for _, c := range w.Calls {
			cs = append(cs, c.Canon())
		}
		m["calls"] = cs
	}
	m["opt_mask"] = w.Cfg.OptMask
	if len(w.Masks) > 0 {
		m["masks"] = w.Masks
	}
	if w.Cfg.Event != "" {
		m["event"] = w.Cfg.Event
	}
	if w.EnumFaults {
		m["enum_faults"] = true
	}
	if w.EnumSplits {
		m["enum_splits"] = true
	}
	if len(w.Steps) > 0 {
		m["steps"] = len(w.Steps)
	}
	if len(w.Tasks) > 0 {
		m["tasks"] = len(w.Tasks)
		m["sched_len"] = len(w.Sched)
	}
	return m
}

func (p *Plan) Canon() string {
	var sb strings.Builder
	k := p.Kind
	if k == "" {
		k = "eval"
	}
	sb.WriteString(k + "{")
	names := make([]string, 0, len(p.Bind))
	for n := range p.Bind {
		names = append(names, n)
	}
	sort.Strings(names)
	for i, n := range names {
		if i > 0 {
			sb.WriteString(", ")
		}
		sb.WriteString(n + "=" + ValStr(p.Bind[n].Go()))
	}
	sb.WriteString("}")
	if len(p.Unavail) > 0 {
		sb.WriteString(fmt.Sprintf(" unavail=%v", p.Unavail))
	}
	if len(p.FailAt) > 0 {
		sb.WriteString(fmt.Sprintf(" fail_at=%v", p.FailAt))
	}
	if p.CancelFrom > 0 {
		sb.WriteString(fmt.Sprintf(" cancel_from=%d", p.CancelFrom-1))
	}
	if len(p.FailVars) > 0 {
		sb.WriteString(fmt.Sprintf(" fail_vars=%v", p.FailVars))
	}
	if len(p.FailOps) > 0 {
		sb.WriteString(fmt.Sprintf(" fail_ops=%v", p.FailOps))
	}
	if p.AbortAt > 0 {
		sb.WriteString(fmt.Sprintf(" abort_at=%d", p.AbortAt-1))
	}
	if p.Clock != 0 {
		sb.WriteString(fmt.Sprintf(" clock=%d", p.Clock))
	}
	return sb.String()
}

// Consts returns the runtime values of the configured constants.
func (c *CfgSpec) ConstVals() map[string]interface{} {
	m := make(map[string]interface{}, len(c.Consts))
	for k, v := range c.Consts {
		m[k] = v.Go()
	}
	return m
}

// KeyOf returns the variable key the configuration assigns to a name
// (the reserved undefined key when the name is not registered).
func (c *CfgSpec) KeyOf(name string) int16 {
	for _, v := range c.Vars {
		if v.Name == name && v.Reg {
			return v.Key
		}
	}
	return -32768
}
