package sim

import (
	"runtime/debug"
	"runtime"
	"sync"
)

// ---------------------------------------------------------------------------
// BATON-RACE: the multi-task worlds executed under the race detector with a
// hand-off the detector cannot see.
//
// A cooperative hand-off through channels would order every step of every
// task by happens-before, and the detector would stay silent on code that is
// in fact racy. Here tasks are spawned by the parent (happens-before only
// parent -> child) and pass a baton: a plain word read and written only in
// //go:norace //go:noinline functions, spin-waited with runtime.Gosched().
// Execution is serialised and seed-determined, yet for the detector the tasks'
// steps are unordered, so any conflicting access to shared library memory is
// reported whatever the interleaving was.
//
// //go:norace covers a function's own body, not its callees, so everything the
// scheduler shares (baton, liveness flags, PRNG state, schedule log) lives in
// fixed-size arrays touched only by the functions below, which call no
// instrumented code.
// ---------------------------------------------------------------------------

const batonMaxTasks = 8
const batonLogCap = 8192

type batonState struct {
	holder   int32
	n        int32
	finished [batonMaxTasks]int32
	killed   [batonMaxTasks]int32
	rng      uint64
	useRng   int32
	pSwitch  uint32 // out of 1<<16
	pAbandon uint32 // out of 1<<16
	sched    [batonLogCap]int16
	schedN   int32
	schedPos int32
	log      [batonLogCap]int16
	logN     int32
	last     int32
}

var baton batonState

// taskPanic carries an unrecovered panic of a task goroutine to the parent.
type taskPanic struct {
	Val   interface{}
	Stack string
}

var batonTaskPanic *taskPanic

// batonRecordPanic keeps the first task panic of a run. Like every word the
// tasks share it is touched only here, out of the race detector's sight.
//
//go:norace
//go:noinline
func batonRecordPanic(tp *taskPanic) {
	if batonTaskPanic == nil {
		batonTaskPanic = tp
	}
}

//go:norace
//go:noinline
func batonInit(n int, seed uint64, useRng bool, pSwitch, pAbandon float64, sched []int) {
	baton.holder = -1
	baton.n = int32(n)
	for i := range baton.finished {
		baton.finished[i] = 0
		baton.killed[i] = 0
	}
	baton.rng = seed | 1
	baton.useRng = 0
	if useRng {
		baton.useRng = 1
	}
	baton.pSwitch = uint32(pSwitch * 65536)
	baton.pAbandon = uint32(pAbandon * 65536)
	baton.schedN = 0
	for i := 0; i < len(sched) && i < batonLogCap; i++ {
		baton.sched[i] = int16(sched[i])
		baton.schedN++
	}
	baton.schedPos = 0
	baton.logN = 0
	baton.last = -1
}

//go:norace
//go:noinline
func batonRand() uint32 {
	x := baton.rng
	x ^= x << 13
	x ^= x >> 7
	x ^= x << 17
	baton.rng = x
	return uint32(x >> 32)
}

// batonPick chooses the next task to run (or -1 when none is left). It may
// decide to abandon (kill) a task instead of running it; the killed task then
// unwinds at the seam it is parked at.
//
//go:norace
//go:noinline
func batonPick() int32 {
	alive := int32(0)
	for i := int32(0); i < baton.n; i++ {
		if baton.finished[i] == 0 {
			alive++
		}
	}
	if alive == 0 {
		return -1
	}
	choice := int32(-1)
	for baton.schedPos < baton.schedN {
		a := int32(baton.sched[baton.schedPos])
		baton.schedPos++
		if a >= actAbandon {
			t := a - actAbandon
			if t < baton.n && baton.finished[t] == 0 && baton.killed[t] == 0 {
				baton.killed[t] = 1
				choice = t
				break
			}
			continue
		}
		if a < baton.n && baton.finished[a] == 0 {
			choice = a
			break
		}
	}
	if choice < 0 && baton.useRng != 0 {
		if baton.last >= 0 && baton.finished[baton.last] == 0 && batonRand()&0xffff >= baton.pSwitch {
			choice = baton.last
		} else {
			k := int32(batonRand() % uint32(alive))
			for i := int32(0); i < baton.n; i++ {
				if baton.finished[i] == 0 {
					if k == 0 {
						choice = i
						break
					}
					k--
				}
			}
			if batonRand()&0xffff < baton.pAbandon && baton.killed[choice] == 0 {
				baton.killed[choice] = 1
				if baton.logN < batonLogCap {
					baton.log[baton.logN] = int16(actAbandon + choice)
					baton.logN++
				}
				baton.last = choice
				return choice
			}
		}
	}
	if choice < 0 {
		// fair default: round-robin after the last task
		for d := int32(1); d <= baton.n; d++ {
			i := (baton.last + d + baton.n) % baton.n
			if baton.finished[i] == 0 {
				choice = i
				break
			}
		}
	}
	if baton.logN < batonLogCap {
		v := choice
		if baton.killed[choice] != 0 && (baton.logN == 0 || int32(baton.log[baton.logN-1]) != actAbandon+choice) {
			v = actAbandon + choice
		}
		baton.log[baton.logN] = int16(v)
		baton.logN++
	}
	baton.last = choice
	return choice
}

//go:norace
//go:noinline
func batonSet(t int32) { baton.holder = t }

//go:norace
//go:noinline
func batonHeldBy(me int32) bool { return baton.holder == me }

//go:norace
//go:noinline
func batonFinish(me int32) { baton.finished[me] = 1 }

//go:norace
//go:noinline
func batonKilled(me int32) bool { return baton.killed[me] != 0 }

//go:norace
//go:noinline
func batonLog() []int {
	r := make([]int, baton.logN)
	for i := range r {
		r[i] = int(baton.log[i])
	}
	return r
}

func batonWait(me int32) {
	for !batonHeldBy(me) {
		runtime.Gosched()
	}
}

// batonYield is called by the running task at a seam.
func batonYield(me int32) {
	next := batonPick()
	if next != me {
		batonSet(next)
		batonWait(me)
	}
	if batonKilled(me) {
		panic(taskKilled{})
	}
}

// RunBaton runs the task bodies under the baton scheduler. Each body receives
// its yield function. Bodies must touch only their own memory, immutable
// shared harness data, and the library objects under test.
func RunBaton(n int, seed uint64, useRng bool, pSwitch, pAbandon float64, sched []int, body func(task int, yield func(kind, name string))) []int {
	if n > batonMaxTasks {
		n = batonMaxTasks
	}
	batonInit(n, seed, useRng, pSwitch, pAbandon, sched)
	var wg sync.WaitGroup
	for i := 0; i < n; i++ {
		me := int32(i)
		wg.Add(1)
		go func() {
			defer wg.Done()
			defer func() {
				if r := recover(); r != nil {
					if _, ok := r.(taskKilled); !ok {
						// a panic nobody in the task recovered: remembered (the
						// panicking task holds the baton, so this is serialised) and
						// re-raised by the parent once every task is done, where the
						// worker's backstop turns it into a violation
						batonRecordPanic(&taskPanic{Val: r, Stack: string(debug.Stack())})
					}
				}
				batonFinish(me)
				batonSet(batonPick())
			}()
			batonWait(me)
			if batonKilled(me) {
				return
			}
			body(int(me), func(kind, name string) { batonYield(me) })
		}()
	}
	batonSet(batonPick())
	wg.Wait()
	if tp := batonTaskPanic; tp != nil {
		batonTaskPanic = nil
		panic(*tp)
	}
	return batonLog()
}
