package sim

import (
	"fmt"
	"hash/fnv"
	"sort"
	"time"

	"github.com/onheap/eval"
)

// ---------------------------------------------------------------------------
// World: the fully explicit description of one simulated run. Replay is a pure
// function of a World and the code under test; the seed is only how the World
// was found.
// ---------------------------------------------------------------------------

type VarSpec struct {
	Name string `json:"name"`
	Ty   Ty     `json:"ty"`
	Key  int16  `json:"key"`           // key in VariableKeyMap when Reg
	Reg  bool   `json:"reg,omitempty"` // false: not registered (undefined-variable mode supplies it)
}

// OpSpec describes one user operator the simulated environment registers.
//
//	pure: result = mix(name, args), typed by Ret; never fails by itself
//	fail: always returns a sentinel error
//	now:  returns the environment's logical clock (constant within one call)
//	count: returns how many times it has been called during this call into the
//	      library (1, 2, ...): not idempotent, so dropping or duplicating an
//	      application changes values
type OpSpec struct {
	Name      string `json:"name"`
	Kind      string `json:"kind"` // pure | fail | now | count | sub | tuple (returns its params slice)
	Ret       Ty     `json:"ret"`
	Arity     int    `json:"arity"`
	Stateless bool   `json:"stateless,omitempty"` // listed in Config.StatelessOperators
	Mutates   bool   `json:"mutates,omitempty"`   // scribbles over its params slice before returning (an operator owns the slice it is handed)
	// SlowFirst: the first call of this operator takes 300 ms of simulated time
	// (a lookup table loaded lazily). Only engines with a simulated clock make
	// it slow; its result is the same.
	SlowFirst bool `json:"slow_first,omitempty"`
	// Var: for Kind "probe" — the variable this operator looks up by itself (in
	// the caller's store, not through an operand): it yields that variable's
	// value, or DNE when the store says the variable is not available yet (what
	// an operator wrapping a sub-rule's TryEval hands back).
	Var string `json:"var,omitempty"`
}

const (
	OptCF = 1 << iota // ConstantFolding
	OptRN             // ReduceNesting
	OptFE             // FastEvaluation
	OptRO             // Reordering
)

var optNames = []eval.CompileOption{eval.ConstantFolding, eval.ReduceNesting, eval.FastEvaluation, eval.Reordering}

type CfgSpec struct {
	Consts    map[string]V      `json:"consts,omitempty"`
	Vars      []VarSpec         `json:"vars,omitempty"`
	Undefined bool              `json:"undefined,omitempty"` // AllowUndefinedVariable
	Ops       []OpSpec          `json:"ops,omitempty"`
	Costs     map[string]string `json:"costs,omitempty"` // float64 as text: NaN, +Inf, -Inf, 1e308 …
	OptMask   int               `json:"opt_mask"`        // which of the four optimisations are enabled
	ViaDirect bool              `json:"via_directive,omitempty"`
	DirStyle  int               `json:"dir_style,omitempty"` // how the directive text is laid out
	ViaAPI    bool              `json:"via_api,omitempty"`   // build the Config through NewConfig + Option helpers + RegisterOperator instead of a struct literal
	Event     string            `json:"event,omitempty"`     // "", "report", "debug"
	Fetcher   string            `json:"fetcher,omitempty"`   // "", "embed_map", "embed_slice": how the caller built its fetcher type
}

// Plan is what the environment does during one call into the library.
type Plan struct {
	Kind       string       `json:"kind,omitempty"`        // eval | tryeval | evalbool | tryevalbool | dump | dumptable
	Bind       map[string]V `json:"bind,omitempty"`        // name -> value; a name that is absent is unbound
	Unavail    []string     `json:"unavail,omitempty"`     // names for which Cached reports false
	FailAt     []int        `json:"fail_at,omitempty"`     // seam-call indices (Get and user-operator calls, in order) that fail
	CancelFrom int          `json:"cancel_from,omitempty"` // >0: every Get at seam index >= CancelFrom-1 fails (request cancelled)
	FailVars   []string     `json:"fail_vars,omitempty"`   // identity-keyed: every Get of these names fails
	FailOps    []string     `json:"fail_ops,omitempty"`    // identity-keyed: "name|arghash" fails
	AbortAt    int          `json:"abort_at,omitempty"`    // >0: the callback at seam index AbortAt-1 panics
	Clock      int64        `json:"clock,omitempty"`       // logical clock read by `now`
	Reenter    []string     `json:"reenter,omitempty"`     // "computed" variables: serving their Get re-enters the library (same Ctx) first
	CtxDone    bool         `json:"ctx_done,omitempty"`    // the request's context.Context (Ctx.Ctx) is already cancelled; the engine must not care
	NilCtx     bool         `json:"nil_ctx,omitempty"`     // the caller passes a nil *Ctx (the program reads no variable)
	RawErr     bool         `json:"raw_err,omitempty"`     // seam errors must not be rendered: their Error() panics (the library hands errors on, it does not print them)
}

func (p *Plan) Clone() Plan {
	q := *p
	q.Bind = map[string]V{}
	for k, v := range p.Bind {
		q.Bind[k] = v
	}
	q.Unavail = append([]string(nil), p.Unavail...)
	q.FailAt = append([]int(nil), p.FailAt...)
	q.FailVars = append([]string(nil), p.FailVars...)
	q.FailOps = append([]string(nil), p.FailOps...)
	q.Reenter = append([]string(nil), p.Reenter...)
	return q
}

// ---------------------------------------------------------------------------
// Errors raised at the seams. Each failing seam call gets its own *SimErr so
// that "the very error the fetcher or operator returned" can be checked with
// errors.Is against exactly one object.
// ---------------------------------------------------------------------------

type SimErr struct {
	Site int    // seam-call index at which it was raised
	Kind string // get_error | get_unbound | op_error | cancel
	What string
	// Raw: rendering this error is not safe on the evaluating goroutine (an
	// Error() method that panics, blocks or is expensive). The harness itself
	// only ever formats errors through fmt, which survives that.
	Raw bool
}

func (e *SimErr) Error() string {
	if e.Raw && rawErrArmed {
		panic("Error() was called on an operator's error while the library was evaluating (errors are handed on, not rendered)")
	}
	return fmt.Sprintf("simerr[%s@%d %s]", e.Kind, e.Site, e.What)
}

// rawErrArmed is true only while a call into the library is in flight for a
// plan with RawErr (INLINE engine, one call at a time).
var rawErrArmed bool

// AbortPanic is what an `abort` fault panics with.
type AbortPanic struct{ Site int }

// Call is one entry of the seam log.
type Call struct {
	Kind   string        // get | op | cached | set
	Name   string        // variable or operator name
	VarKey int16         // for get/cached/set
	Args   []interface{} // deep copy taken inside the callback (op)
	Res    interface{}
	Err    *SimErr
	Phase  string
}

func (c Call) String() string {
	s := ""
	switch c.Kind {
	case "get", "cached", "set":
		s = fmt.Sprintf("%s(%s key=%d)", c.Kind, c.Name, c.VarKey)
	default:
		s = fmt.Sprintf("op %s%s", c.Name, ValStr(c.Args))
	}
	if c.Err != nil {
		return s + " -> " + c.Err.Kind
	}
	return s + " -> " + ValStr(c.Res)
}

// Env is one live instance of a Plan: the simulated remote variable store and
// the user operators, with their call log. One Env serves exactly one call
// into the library (or one run of a reference interpreter).
type Env struct {
	Ops   map[string]*OpSpec
	Plan  *Plan
	Phase string

	bind     map[string]interface{}
	unavail  map[string]bool
	failAt   map[int]bool
	failVars map[string]bool
	failOps  map[string]bool

	N       int // seam calls so far (get + op)
	Log     []Call
	Cached_ []Call // Cached() calls, kept apart: C03 speaks of Get and operator calls only
	Sets    int
	Fired   map[string]int // fault kinds that actually fired

	// Yield, when set, is called at every seam before the call is served
	// (multi-task engines park here).
	Yield func(kind, name string)
	// Sub, when set, serves operators of kind "sub": a re-entrant call into
	// the library from inside a callback.
	Sub func() interface{}
	// KeyOf, when set, is the configuration's name -> key assignment. A fetcher
	// is entitled to use either key it is handed, so the simulated one insists
	// that both identify the same variable.
	KeyOf       func(name string) int16
	KeyMismatch string
	counts      map[string]int64
	reenter     map[string]bool
	inSub       bool
}

func NewEnv(ops map[string]*OpSpec, p *Plan) *Env {
	e := &Env{Ops: ops, Plan: p, Fired: map[string]int{}}
	e.bind = make(map[string]interface{}, len(p.Bind))
	for k, v := range p.Bind {
		e.bind[k] = v.Go()
	}
	if len(p.Unavail) > 0 {
		e.unavail = map[string]bool{}
		for _, n := range p.Unavail {
			e.unavail[n] = true
		}
	}
	if len(p.FailAt) > 0 {
		e.failAt = map[int]bool{}
		for _, k := range p.FailAt {
			e.failAt[k] = true
		}
	}
	if len(p.FailVars) > 0 {
		e.failVars = map[string]bool{}
		for _, n := range p.FailVars {
			e.failVars[n] = true
		}
	}
	if len(p.Reenter) > 0 {
		e.reenter = map[string]bool{}
		for _, n := range p.Reenter {
			e.reenter[n] = true
		}
	}
	if len(p.FailOps) > 0 {
		e.failOps = map[string]bool{}
		for _, n := range p.FailOps {
			e.failOps[n] = true
		}
	}
	return e
}

func (e *Env) maybeAbort(site int) {
	if e.Plan.AbortAt > 0 && e.Plan.AbortAt-1 == site {
		e.Fired["abort"]++
		panic(AbortPanic{Site: site})
	}
}

// Get is the variable-fetch seam.
func (e *Env) checkKey(what string, varKey int16, name string) {
	if e.KeyOf != nil && e.KeyMismatch == "" {
		if want := e.KeyOf(name); want != varKey {
			e.KeyMismatch = fmt.Sprintf("%s(%d, %q): the configuration assigns key %d to %q", what, varKey, name, want, name)
		}
	}
}

func (e *Env) Get(varKey int16, name string) (interface{}, error) {
	if e.Yield != nil {
		e.Yield("get", name)
	}
	e.checkKey("Get", varKey, name)
	if e.reenter[name] && e.Sub != nil && !e.inSub {
		// a computed variable: its fetch evaluates another rule first
		e.inSub = true
		e.Fired["reentrant_get"]++
		e.Sub()
		e.inSub = false
	}
	site := e.N
	e.N++
	c := Call{Kind: "get", Name: name, VarKey: varKey, Phase: e.Phase}
	e.maybeAbort(site)
	switch {
	case e.Plan.CancelFrom > 0 && site >= e.Plan.CancelFrom-1:
		c.Err = &SimErr{Site: site, Kind: "cancel", What: name}
		e.Fired["cancel_from"]++
	case e.failAt[site]:
		c.Err = &SimErr{Site: site, Kind: "get_error", What: name}
		e.Fired["get_error"]++
	case e.failVars[name]:
		c.Err = &SimErr{Site: site, Kind: "get_error", What: name}
		e.Fired["get_error"]++
	default:
		v, ok := e.bind[name]
		if !ok {
			c.Err = &SimErr{Site: site, Kind: "get_unbound", What: name}
			e.Fired["get_unbound"]++
		} else {
			c.Res = v
		}
	}
	e.Log = append(e.Log, c)
	if c.Err != nil {
		return nil, c.Err
	}
	return c.Res, nil
}

// IsCached is the availability seam (TryEval).
func (e *Env) IsCached(varKey int16, name string) bool {
	if e.Yield != nil {
		e.Yield("cached", name)
	}
	e.checkKey("Cached", varKey, name)
	ok := !e.unavail[name]
	if !ok {
		e.Fired["unavailable"]++
	}
	e.Cached_ = append(e.Cached_, Call{Kind: "cached", Name: name, VarKey: varKey, Res: ok, Phase: e.Phase})
	return ok
}

// OpKey is the identity under which an operator call can be made to fail
// independently of the order of calls.
func OpKey(name string, args []interface{}) string {
	h := fnv.New64a()
	h.Write([]byte(ValStr(args)))
	return fmt.Sprintf("%s|%x", name, h.Sum64()&0xffff)
}

// CallOp is the user-operator seam.
func (e *Env) CallOp(name string, args []interface{}) (interface{}, error) {
	spec := e.Ops[name]
	if spec == nil {
		panic("sim: call of unknown user operator " + name)
	}
	site := e.N
	e.N++
	c := Call{Kind: "op", Name: name, Args: CopyVals(args), Phase: e.Phase}
	e.maybeAbort(site)
	switch {
	case spec.Kind == "fail":
		c.Err = &SimErr{Site: site, Kind: "op_error", What: name, Raw: e.Plan.RawErr}
		e.Fired["op_error"]++
	case e.failAt[site]:
		c.Err = &SimErr{Site: site, Kind: "op_error", What: name, Raw: e.Plan.RawErr}
		e.Fired["op_error"]++
	case e.failOps != nil && e.failOps[OpKey(name, args)]:
		c.Err = &SimErr{Site: site, Kind: "op_error", What: name, Raw: e.Plan.RawErr}
		e.Fired["op_error"]++
	case spec.Kind == "count":
		if e.counts == nil {
			e.counts = map[string]int64{}
		}
		e.counts[name]++
		c.Res = e.counts[name]
	case spec.Kind == "probe":
		if e.unavail[spec.Var] {
			c.Res = eval.DNE
		} else if v, ok := e.bind[spec.Var]; ok {
			c.Res = v
		} else {
			c.Err = &SimErr{Site: site, Kind: "op_error", What: name}
			e.Fired["op_error"]++
		}
	case spec.Kind == "tuple":
		c.Res = CopyVals(args) // the operator's value is the list of its arguments
	case spec.Kind == "now":
		c.Res = e.Plan.Clock
	case spec.Kind == "sub":
		if e.Sub != nil && !e.inSub {
			e.Fired["reentrant_eval"]++
			e.inSub = true
			c.Res = e.Sub()
			e.inSub = false
		} else {
			c.Res = int64(0)
		}
	default:
		c.Res = Mix(spec, args)
	}
	e.Log = append(e.Log, c)
	if c.Err != nil {
		return nil, c.Err
	}
	return c.Res, nil
}

var strPool = []string{"", "a", "b", "en-US", "zh", "1.2.3", "2021-01-01", "x y", "ü"}

// Mix is the definition of the pure user operators: a typed hash of the
// operator name and its arguments. It belongs to the simulated environment;
// engine-side callbacks and reference interpreters both call it.
func Mix(spec *OpSpec, args []interface{}) interface{} {
	h := fnv.New64a()
	h.Write([]byte(spec.Name))
	h.Write([]byte(ValStr(args)))
	x := h.Sum64()
	switch spec.Ret {
	case TBool:
		return x&1 == 1
	case TInt:
		return int64(x%7) - 3
	case TStr:
		return strPool[x%uint64(len(strPool))]
	case TIntList:
		return []int64{int64(x % 3), int64(x % 5)}
	case TStrList:
		return []string{strPool[x%uint64(len(strPool))]}
	case TRawInt:
		return int(x%7) - 3 // a plain Go int: user code is not obliged to return int64
	case TAny:
		return nil // "no value": legal for a user operator
	}
	return int64(x % 11)
}

// ---------------------------------------------------------------------------
// Engine-side adapters.
// ---------------------------------------------------------------------------

// SimFetcher implements eval.VariableFetcher on top of an Env.
type SimFetcher struct{ E *Env }

func (f *SimFetcher) Get(k eval.VariableKey, s string) (eval.Value, error) {
	v, err := f.E.Get(int16(k), s)
	if err != nil {
		if se, ok := err.(*SimErr); ok && se.Site%2 == 1 {
			// some fetchers hand back a placeholder together with the error; the
			// error is what counts
			return "value returned together with an error", err
		}
		return nil, err
	}
	return v, nil
}

func (f *SimFetcher) Set(k eval.VariableKey, s string, v eval.Value) error {
	f.E.Sets++
	f.E.Log = append(f.E.Log, Call{Kind: "set", Name: s, VarKey: int16(k), Phase: f.E.Phase})
	return nil
}

func (f *SimFetcher) Cached(k eval.VariableKey, s string) bool {
	return f.E.IsCached(int16(k), s)
}

// EmbedMapFetcher / EmbedSliceFetcher are fetchers built the way users build
// them: a struct that embeds one of the library's fetcher types and overrides
// Get, Set and Cached. The embedded fetcher holds stale placeholder values; a
// library that reaches it through anything but the three interface methods
// (an optional extra interface, a type switch on the embedded type, a promoted
// helper method) reads those instead of what the caller's overrides serve.
type EmbedMapFetcher struct {
	eval.MapVarFetcher
	S *SimFetcher
}

func (f *EmbedMapFetcher) Get(k eval.VariableKey, s string) (eval.Value, error) { return f.S.Get(k, s) }
func (f *EmbedMapFetcher) Set(k eval.VariableKey, s string, v eval.Value) error { return f.S.Set(k, s, v) }
func (f *EmbedMapFetcher) Cached(k eval.VariableKey, s string) bool             { return f.S.Cached(k, s) }
func (f *EmbedMapFetcher) sim() *SimFetcher                                    { return f.S }

type EmbedSliceFetcher struct {
	eval.SliceVarFetcher
	S *SimFetcher
}

func (f *EmbedSliceFetcher) Get(k eval.VariableKey, s string) (eval.Value, error) {
	return f.S.Get(k, s)
}
func (f *EmbedSliceFetcher) Set(k eval.VariableKey, s string, v eval.Value) error {
	return f.S.Set(k, s, v)
}
func (f *EmbedSliceFetcher) Cached(k eval.VariableKey, s string) bool { return f.S.Cached(k, s) }
func (f *EmbedSliceFetcher) sim() *SimFetcher                        { return f.S }

func (f *SimFetcher) sim() *SimFetcher { return f }

// simOf returns the SimFetcher behind any of the harness's fetcher types.
func simOf(vf eval.VariableFetcher) *SimFetcher {
	if c, ok := vf.(interface{ sim() *SimFetcher }); ok {
		return c.sim()
	}
	return nil
}

// WrapFetcher dresses sf as the configuration's fetcher type.
func WrapFetcher(kind string, sf *SimFetcher, names []string) eval.VariableFetcher {
	switch kind {
	case "embed_map":
		m := eval.MapVarFetcher{}
		for i, n := range names {
			if i%2 == 0 {
				m[n] = "stale value of " + n // odd ones are simply absent
			}
		}
		return &EmbedMapFetcher{MapVarFetcher: m, S: sf}
	case "embed_slice":
		sl := make(eval.SliceVarFetcher, 256)
		for i := range sl {
			if i%2 == 0 {
				sl[i] = "stale slot"
			}
		}
		return &EmbedSliceFetcher{SliceVarFetcher: sl, S: sf}
	}
	return sf
}

// OpHost routes user-operator callbacks to the Env of the call they belong to:
// at evaluation time through the Ctx the engine passes along, at compile time
// (ctx is nil while Compile folds constants) through CompileEnv.
type OpHost struct {
	Specs      map[string]*OpSpec
	CompileEnv *Env
	// Pure: compile-time calls (no Ctx) are served without any Env, log or
	// yield — used where several tasks compile at once under the race
	// detector and the harness must not share mutable state of its own.
	Pure bool
	// Sleep, when set, is how a SlowFirst operator spends simulated time.
	Sleep    func(d time.Duration)
	slowDone map[string]bool
}

func (h *OpHost) envOf(ctx *eval.Ctx) *Env {
	if ctx != nil {
		if f := simOf(ctx.VariableFetcher); f != nil {
			return f.E
		}
	}
	if h.CompileEnv == nil {
		if ctx != nil {
			panic(fmt.Sprintf("a user operator was handed a Ctx whose VariableFetcher (%T) is not the one the caller put into its Ctx", ctx.VariableFetcher))
		}
		panic("sim: user operator called without a context and outside Compile")
	}
	return h.CompileEnv
}

func (h *OpHost) Operator(name string) eval.Operator {
	return func(ctx *eval.Ctx, params []eval.Value) (eval.Value, error) {
		if sp := h.Specs[name]; sp != nil && sp.SlowFirst && h.Sleep != nil && !h.slowDone[name] {
			if h.slowDone == nil {
				h.slowDone = map[string]bool{}
			}
			h.slowDone[name] = true
			h.Sleep(300 * time.Millisecond)
		}
		if ctx == nil && h.Pure {
			spec := h.Specs[name]
			args := make([]interface{}, len(params))
			for i, p := range params {
				args[i] = p
			}
			switch spec.Kind {
			case "fail":
				return nil, &SimErr{Kind: "op_error", What: name}
			case "now", "sub", "count":
				return int64(0), nil
			}
			return Mix(spec, args), nil
		}
		env := h.envOf(ctx)
		// the task may be switched out right at operator entry, BEFORE the
		// arguments are looked at: a parameter buffer the library shares
		// between evaluations is then overwritten by whoever runs meanwhile
		if env.Yield != nil {
			env.Yield("op", name)
		}
		args := make([]interface{}, len(params))
		for i, p := range params {
			args[i] = fromEngine(p, 0)
		}
		v, err := env.CallOp(name, args)
		if sp := h.Specs[name]; sp != nil && sp.Kind == "tuple" && err == nil {
			// `return params, nil`: the value IS the slice the engine handed over
			// (an operator owns it); whoever consumes the value later must find
			// the arguments in it
			return params, nil
		}
		if err != nil && len(name)%2 == 1 {
			// an operator is free to return a value together with its error; the
			// error is what counts
			v = "value-returned-alongside-an-error"
		}
		if sp := h.Specs[name]; sp != nil && sp.Mutates {
			for i := range params {
				params[i] = "scribbled-by-" + name
			}
		}
		if err != nil {
			return v, err
		}
		return v, nil
	}
}

// fromEngine turns a value a tuple operator returned ([]eval.Value, possibly
// nested) into the harness's own list form; everything else passes through.
func fromEngine(p interface{}, depth int) interface{} {
	t, ok := p.([]eval.Value)
	if !ok {
		return p
	}
	if depth > 6 {
		return "<a list nested in itself>"
	}
	r := make([]interface{}, len(t))
	for i := range t {
		r[i] = fromEngine(t[i], depth+1)
	}
	return r
}

// SpecMap indexes operator specs by name.
func SpecMap(ops []OpSpec) map[string]*OpSpec {
	m := make(map[string]*OpSpec, len(ops))
	for i := range ops {
		m[ops[i].Name] = &ops[i]
	}
	return m
}

// BuildConfig builds a real eval.Config from a CfgSpec. optMask/viaDirective
// are passed separately so that one CfgSpec can be compiled under many option
// subsets. The config is built as a struct literal; only maps the spec needs
// are allocated.
func BuildConfig(c *CfgSpec, host *OpHost, optMask int, setOpts bool) *eval.Config {
	if c.ViaAPI {
		return buildConfigViaAPI(c, host, optMask, setOpts)
	}
	cc := &eval.Config{
		ConstantMap:    map[string]eval.Value{},
		OperatorMap:    map[string]eval.Operator{},
		VariableKeyMap: map[string]eval.VariableKey{},
		CostsMap:       map[string]float64{},
		CompileOptions: map[eval.CompileOption]bool{},
	}
	for _, k := range sortedKeys(c.Consts) {
		cc.ConstantMap[k] = c.Consts[k].Go()
	}
	for _, v := range c.Vars {
		if v.Reg {
			cc.VariableKeyMap[v.Name] = eval.VariableKey(v.Key)
		}
	}
	for i := range c.Ops {
		cc.OperatorMap[c.Ops[i].Name] = host.Operator(c.Ops[i].Name)
		if c.Ops[i].Stateless {
			cc.StatelessOperators = append(cc.StatelessOperators, c.Ops[i].Name)
		}
	}
	for _, k := range sortedKeysS(c.Costs) {
		cc.CostsMap[k] = parseCost(c.Costs[k])
	}
	if c.Undefined {
		cc.CompileOptions[eval.AllowUndefinedVariable] = true
	}
	switch c.Event {
	case "report":
		cc.CompileOptions[eval.ReportEvent] = true
	case "debug":
		cc.CompileOptions[eval.Debug] = true
	case "both":
		cc.CompileOptions[eval.ReportEvent] = true
		cc.CompileOptions[eval.Debug] = true
	}
	if setOpts {
		for i, o := range optNames {
			cc.CompileOptions[o] = optMask&(1<<i) != 0
		}
	}
	return cc
}

// buildConfigViaAPI builds the same configuration through the public
// construction API: NewConfig with the Option helpers (Optimizations,
// EnableUndefinedVariable, EnableReportEvent, EnableDebug) and
// RegisterOperator. Variable keys are still assigned explicitly (the spec
// fixes them).
func buildConfigViaAPI(c *CfgSpec, host *OpHost, optMask int, setOpts bool) *eval.Config {
	var opts []eval.Option
	if c.Undefined {
		opts = append(opts, eval.EnableUndefinedVariable)
	}
	switch c.Event {
	case "report":
		opts = append(opts, eval.EnableReportEvent)
	case "debug":
		opts = append(opts, eval.EnableDebug)
	case "both":
		opts = append(opts, eval.EnableDebug, eval.EnableReportEvent)
	}
	if setOpts {
		var on, off []eval.CompileOption
		for i, o := range optNames {
			if optMask&(1<<i) != 0 {
				on = append(on, o)
			} else {
				off = append(off, o)
			}
		}
		switch {
		case len(off) == 0:
			opts = append(opts, eval.Optimizations(true)) // no list = all of them
		case len(on) == 0:
			opts = append(opts, eval.Optimizations(false, eval.Optimize))
		default:
			opts = append(opts, eval.Optimizations(false, off...), eval.Optimizations(true, on...))
		}
	}
	if c.DirStyle%3 == 2 {
		// every option given twice: options are settings, not toggles
		opts = append(opts, opts...)
	}
	cc := eval.NewConfig(opts...)
	if c.DirStyle%3 == 1 {
		// everything arrives through a base configuration and ExtendConf; the
		// base is emptied afterwards (the extension owns its copy)
		defer func(ext *eval.Config) {
			base := *ext
			*ext = *eval.NewConfig(eval.ExtendConf(&base))
			for k := range base.ConstantMap {
				delete(base.ConstantMap, k)
			}
			for k := range base.OperatorMap {
				delete(base.OperatorMap, k)
			}
			for k := range base.VariableKeyMap {
				delete(base.VariableKeyMap, k)
			}
			for k := range base.CompileOptions {
				delete(base.CompileOptions, k)
			}
			for k := range base.CostsMap {
				delete(base.CostsMap, k)
			}
			for i := range base.StatelessOperators {
				base.StatelessOperators[i] = "emptied"
			}
		}(cc)
	}
	for _, k := range sortedKeys(c.Consts) {
		cc.ConstantMap[k] = c.Consts[k].Go()
	}
	for _, v := range c.Vars {
		if v.Reg {
			cc.VariableKeyMap[v.Name] = eval.VariableKey(v.Key)
		}
	}
	for i := range c.Ops {
		if IsBuiltin(c.Ops[i].Name) {
			// RegisterOperator (rightly) refuses built-in names; such an entry
			// can only come from RegVarAndOp or a direct write
			cc.OperatorMap[c.Ops[i].Name] = host.Operator(c.Ops[i].Name)
		} else if err := eval.RegisterOperator(cc, c.Ops[i].Name, host.Operator(c.Ops[i].Name)); err != nil {
			panic("sim: RegisterOperator refused a fresh, non-built-in name: " + err.Error())
		}
		if c.Ops[i].Stateless {
			cc.StatelessOperators = append(cc.StatelessOperators, c.Ops[i].Name)
		}
	}
	for _, k := range sortedKeysS(c.Costs) {
		cc.CostsMap[k] = parseCost(c.Costs[k])
	}
	return cc
}

// Directive renders an option subset as in-source ";;;;" directive comments.
// Several equivalent layouts exist (style); all must mean the same.
func Directive(optMask int, style int) string {
	on := func(i int) string {
		if optMask&(1<<i) != 0 {
			return "true"
		}
		return "false"
	}
	switch style % 8 {
	case 6, 7:
		// directives that are overridden further down: first every single switch
		// set to the OPPOSITE of what is wanted, then a general `optimize` line
		// (which resets all four), then the wanted subset. Directives apply in
		// source order; the last word counts.
		s := ""
		for i, o := range optNames {
			opp := "true"
			if optMask&(1<<i) != 0 {
				opp = "false"
			}
			s += ";;;; " + string(o) + ": " + opp + "\n"
		}
		if style%8 == 6 {
			s += ";;;; optimize: false\n"
			for i, o := range optNames {
				if optMask&(1<<i) != 0 {
					s += ";;;;" + string(o) + ":true\n"
				}
			}
		} else {
			s += ";;;; optimize: true\n"
			for i, o := range optNames {
				if optMask&(1<<i) == 0 {
					s += ";;;;" + string(o) + ":false\n"
				}
			}
		}
		return s
	case 4: // ONE line: everything off, then the subset on (options of a line apply left to right)
		s := ";;;; optimize: false"
		for i, o := range optNames {
			if optMask&(1<<i) != 0 {
				s += ", " + string(o) + ": true"
			}
		}
		return s + "\n"
	case 5: // ONE line: everything on, then the complement off
		s := ";;;;optimize:true"
		for i, o := range optNames {
			if optMask&(1<<i) == 0 {
				s += "," + string(o) + ":false"
			}
		}
		return s + "\n"
	case 1: // switch everything off, then enable the subset
		s := ";;;;optimize:false\n"
		for i, o := range optNames {
			if optMask&(1<<i) != 0 {
				s += ";;;; " + string(o) + ": true\n"
			}
		}
		return s
	case 2: // one directive line per option, preceded by an ordinary comment
		s := ";; compile options\n"
		for i, o := range optNames {
			s += ";;;;" + string(o) + ":" + on(i) + "\n"
		}
		return s
	case 3: // switch everything on, then disable the complement; numeric booleans
		s := "  ;;;; optimize : 1\n"
		for i, o := range optNames {
			if optMask&(1<<i) == 0 {
				s += "\t;;;; " + string(o) + " : 0\n"
			}
		}
		return s
	}
	s := ";;;; "
	for i, o := range optNames {
		if i > 0 {
			s += ", "
		}
		s += string(o) + ": " + on(i)
	}
	return s + "\n"
}

func sortedKeys(m map[string]V) []string {
	r := make([]string, 0, len(m))
	for k := range m {
		r = append(r, k)
	}
	sort.Strings(r)
	return r
}

func sortedKeysS(m map[string]string) []string {
	r := make([]string, 0, len(m))
	for k := range m {
		r = append(r, k)
	}
	sort.Strings(r)
	return r
}
