package sim

import (
	"sort"
	"time"
)

// Shrink minimises a failing world structurally while the same violation class
// persists. A candidate is accepted only if it fails twice in a row with that
// class (guards against the one source of nondeterminism the harness cannot
// seed, Go map iteration order inside the library).
func Shrink(p Prop, v *Violation, budget time.Duration) *Violation {
	class := v.Class()
	deadline := time.Now().Add(budget)
	cur := v
	tries := 0
	test := func(w *World) *Violation {
		tries++
		shrinkTick()
		// candidates must stay inside the domain the generator guarantees
		if w.Prop != "C06" {
			if w.Prog != nil && !InDomain(&w.Cfg, w.Prog) {
				return nil
			}
			for _, pr := range w.Progs {
				if !InDomain(&w.Cfg, pr) {
					return nil
				}
			}
		}
		for i := 0; i < 2; i++ {
			st := NewStats()
			var nv *Violation
			func() {
				defer func() {
					if r := recover(); r != nil {
						nv = nil
					}
				}()
				nv = p.Run(w.Clone(), st)
			}()
			if nv == nil || nv.Class() != class {
				return nil
			}
			if i == 1 {
				return nv
			}
		}
		return nil
	}
	improved := true
	for improved && time.Now().Before(deadline) && tries < 6000 {
		improved = false
		for _, cand := range candidates(cur.World) {
			if time.Now().After(deadline) {
				break
			}
			if worldSize(cand) >= worldSize(cur.World) {
				continue
			}
			if nv := test(cand); nv != nil {
				if worldSize(nv.World) <= worldSize(cand) {
					cur = nv
				} else {
					nv.World = cand
					cur = nv
				}
				improved = true
				break
			}
		}
	}
	return cur
}

// worldSize is the measure shrinking decreases.
func worldSize(w *World) int {
	s := 0
	if w.Prog != nil {
		s += 10 * w.Prog.Size()
		w.Prog.Walk(func(n *Node) {
			if n.K == KLit {
				s += valSize(*n.Val)
			}
		})
	}
	for _, p := range w.Progs {
		s += 10 * p.Size()
	}
	planSize := func(p *Plan) int {
		x := 5 + 3*len(p.Bind) + 4*len(p.FailAt) + 2*len(p.Unavail) + 4*len(p.FailVars) + 4*len(p.FailOps)
		if p.CancelFrom > 0 {
			x += 4
		}
		if p.AbortAt > 0 {
			x += 4
		}
		for _, v := range p.Bind {
			x += valSize(v)
		}
		return x
	}
	for i := range w.Calls {
		s += planSize(&w.Calls[i])
	}
	for i := range w.Steps {
		s += 6
		if w.Steps[i].Plan != nil {
			s += planSize(w.Steps[i].Plan)
		}
	}
	for _, t := range w.Tasks {
		s += 8
		for i := range t {
			s += 6
			if t[i].Plan != nil {
				s += planSize(t[i].Plan)
			}
		}
	}
	s += len(w.Sched)
	s += 3*len(w.Cfg.Vars) + 3*len(w.Cfg.Consts) + 3*len(w.Cfg.Ops) + 2*len(w.Cfg.Costs) + 2*len(w.Masks)
	for _, o := range w.Cfg.Ops {
		s += o.Arity
		if o.Stateless {
			s++
		}
	}
	if w.Cfg.Event != "" {
		s += 3
	}
	if w.Cfg.ViaDirect {
		s += 2
	}
	if w.Cfg.Undefined {
		s++
	}
	if w.EnumFaults {
		s += 50
	}
	if w.EnumSplits {
		s += 50
	}
	for i := 0; i < 4; i++ {
		if w.Cfg.OptMask&(1<<i) != 0 {
			s++
		}
	}
	if w.ChCap > 0 {
		s++
	}
	return s
}

func valSize(v V) int {
	s := len(v.IL) + len(v.SL) + len(v.S)
	if v.I != 0 {
		s++
		if v.I > 100 || v.I < -100 {
			s++
		}
	}
	if v.B {
		s++
	}
	return s
}

// candidates proposes smaller variants of w, most aggressive first.
func candidates(w *World) []*World {
	var out []*World
	add := func(f func(c *World) bool) {
		c := w.Clone()
		if f(c) {
			out = append(out, c)
		}
	}
	// fewer calls
	if len(w.Calls) > 1 {
		for i := range w.Calls {
			i := i
			add(func(c *World) bool { c.Calls = []Plan{c.Calls[i]}; return true })
		}
		for i := range w.Calls {
			i := i
			add(func(c *World) bool { c.Calls = append(c.Calls[:i], c.Calls[i+1:]...); return true })
		}
	}
	// fewer steps / tasks / schedule entries
	if len(w.Steps) > 1 {
		for i := range w.Steps {
			i := i
			add(func(c *World) bool { c.Steps = append(c.Steps[:i], c.Steps[i+1:]...); return true })
		}
	}
	if len(w.Tasks) > 1 {
		for i := range w.Tasks {
			i := i
			add(func(c *World) bool {
				c.Tasks = append(c.Tasks[:i], c.Tasks[i+1:]...)
				var s []int
				for _, t := range c.Sched {
					switch {
					case t == i:
					case t > i && t < 1000:
						s = append(s, t-1)
					default:
						s = append(s, t)
					}
				}
				c.Sched = s
				return true
			})
		}
	}
	for ti := range w.Tasks {
		if len(w.Tasks[ti]) > 1 {
			for i := range w.Tasks[ti] {
				ti, i := ti, i
				add(func(c *World) bool { c.Tasks[ti] = append(c.Tasks[ti][:i], c.Tasks[ti][i+1:]...); return true })
			}
		}
	}
	if len(w.Sched) > 0 {
		add(func(c *World) bool { c.Sched = c.Sched[:len(c.Sched)/2]; return true })
		for i := 0; i < len(w.Sched) && i < 64; i++ {
			i := i
			add(func(c *World) bool { c.Sched = append(c.Sched[:i], c.Sched[i+1:]...); return true })
		}
	}
	if len(w.Masks) > 1 {
		for i := range w.Masks {
			i := i
			add(func(c *World) bool { c.Masks = []int{c.Masks[i]}; return true })
		}
	}
	// program: replace a node by one of its children, by a literal, or drop an operand
	progs := []*Node{}
	if w.Prog != nil {
		progs = append(progs, w.Prog)
	}
	progs = append(progs, w.Progs...)
	for pi := range progs {
		n := progs[pi].Size()
		for idx := 0; idx < n; idx++ {
			pi, idx := pi, idx
			target := nthNode(progs[pi], idx)
			for ci := range target.Args {
				ci := ci
				add(func(c *World) bool {
					root := progOf(c, pi)
					t := nthNode(root, idx)
					repl := t.Args[ci]
					if idx == 0 {
						if repl.K != KOp && repl.K != KIf {
							return false
						}
						setProg(c, pi, repl)
						return true
					}
					*t = *repl
					return true
				})
			}
			if target.K == KOp && len(target.Args) > 2 && variadic(target.Name) {
				for ci := range target.Args {
					ci := ci
					add(func(c *World) bool {
						t := nthNode(progOf(c, pi), idx)
						t.Args = append(t.Args[:ci], t.Args[ci+1:]...)
						return true
					})
				}
			}
			if idx > 0 && !(target.K == KLit) {
				for _, lit := range []V{VB(true), VB(false), VI(0), VI(1), VS("")} {
					lit := lit
					add(func(c *World) bool {
						t := nthNode(progOf(c, pi), idx)
						*t = *Lit(lit)
						return true
					})
				}
			}
			if target.K == KLit {
				v := *target.Val
				for _, sv := range simplerVals(v) {
					sv := sv
					add(func(c *World) bool {
						t := nthNode(progOf(c, pi), idx)
						t.Val = &sv
						return true
					})
				}
			}
			if target.K == KVar && idx > 0 {
				// replace a variable by the literal of its bound value
				if len(w.Calls) == 1 {
					if bv, ok := w.Calls[0].Bind[target.Name]; ok && (bv.T == "b" || bv.T == "i" || bv.T == "s" || ((bv.T == "il" || bv.T == "sl") && len(bv.IL)+len(bv.SL) > 0)) {
						add(func(c *World) bool {
							t := nthNode(progOf(c, pi), idx)
							*t = *Lit(bv)
							return true
						})
					}
				}
			}
			if target.K == KConst && idx > 0 {
				if cv, ok := w.Cfg.Consts[target.Name]; ok && (cv.T == "b" || cv.T == "i" || cv.T == "s") {
					add(func(c *World) bool {
						t := nthNode(progOf(c, pi), idx)
						*t = *Lit(cv)
						return true
					})
				}
			}
		}
	}
	// plans: fewer faults, simpler bindings
	plans := func(c *World) []*Plan {
		var ps []*Plan
		for i := range c.Calls {
			ps = append(ps, &c.Calls[i])
		}
		for i := range c.Steps {
			if c.Steps[i].Plan != nil {
				ps = append(ps, c.Steps[i].Plan)
			}
		}
		for ti := range c.Tasks {
			for i := range c.Tasks[ti] {
				if c.Tasks[ti][i].Plan != nil {
					ps = append(ps, c.Tasks[ti][i].Plan)
				}
			}
		}
		return ps
	}
	for pi, p := range plans(w) {
		pi := pi
		for i := range p.FailAt {
			i := i
			add(func(c *World) bool {
				q := plans(c)[pi]
				q.FailAt = append(q.FailAt[:i], q.FailAt[i+1:]...)
				return true
			})
		}
		if p.CancelFrom > 0 {
			add(func(c *World) bool { plans(c)[pi].CancelFrom = 0; return true })
		}
		if p.AbortAt > 0 {
			add(func(c *World) bool { plans(c)[pi].AbortAt = 0; return true })
		}
		for i := range p.FailVars {
			i := i
			add(func(c *World) bool {
				q := plans(c)[pi]
				q.FailVars = append(q.FailVars[:i], q.FailVars[i+1:]...)
				return true
			})
		}
		for i := range p.FailOps {
			i := i
			add(func(c *World) bool {
				q := plans(c)[pi]
				q.FailOps = append(q.FailOps[:i], q.FailOps[i+1:]...)
				return true
			})
		}
		for i := range p.Unavail {
			i := i
			add(func(c *World) bool {
				q := plans(c)[pi]
				q.Unavail = append(q.Unavail[:i], q.Unavail[i+1:]...)
				return true
			})
		}
		names := sortedKeys(p.Bind)
		for _, n := range names {
			n := n
			for _, sv := range simplerVals(p.Bind[n]) {
				sv := sv
				add(func(c *World) bool { plans(c)[pi].Bind[n] = sv; return true })
			}
		}
	}
	// configuration
	used := map[string]bool{}
	for _, pr := range progs {
		pr.Walk(func(n *Node) {
			if n.Name != "" {
				used[n.K+":"+n.Name] = true
			}
		})
	}
	for i, v := range w.Cfg.Vars {
		if !used[KVar+":"+v.Name] {
			i, name := i, v.Name
			add(func(c *World) bool {
				c.Cfg.Vars = append(c.Cfg.Vars[:i], c.Cfg.Vars[i+1:]...)
				for _, p := range plans(c) {
					delete(p.Bind, name)
				}
				return true
			})
		}
	}
	for _, k := range sortedKeys(w.Cfg.Consts) {
		if !used[KConst+":"+k] {
			k := k
			add(func(c *World) bool { delete(c.Cfg.Consts, k); return true })
		}
	}
	for i, o := range w.Cfg.Ops {
		if !used[KOp+":"+o.Name] {
			i := i
			add(func(c *World) bool { c.Cfg.Ops = append(c.Cfg.Ops[:i], c.Cfg.Ops[i+1:]...); return true })
		}
		if o.Stateless {
			i := i
			add(func(c *World) bool { c.Cfg.Ops[i].Stateless = false; return true })
		}
	}
	if w.Cfg.Event != "" {
		add(func(c *World) bool { c.Cfg.Event = ""; return true })
	}
	if w.Cfg.ViaDirect {
		add(func(c *World) bool { c.Cfg.ViaDirect = false; return true })
	}
	for i := 0; i < 4; i++ {
		if w.Cfg.OptMask&(1<<i) != 0 {
			i := i
			add(func(c *World) bool { c.Cfg.OptMask &^= 1 << i; return true })
		}
	}
	ck := sortedKeysS(w.Cfg.Costs)
	for _, k := range ck {
		k := k
		add(func(c *World) bool { delete(c.Cfg.Costs, k); return true })
	}
	if w.API != "" && w.API != "eval" {
		add(func(c *World) bool { c.API = "eval"; return true })
	}
	sort.SliceStable(out, func(i, j int) bool { return worldSize(out[i]) < worldSize(out[j]) })
	return out
}

func progOf(c *World, pi int) *Node {
	if c.Prog != nil {
		if pi == 0 {
			return c.Prog
		}
		return c.Progs[pi-1]
	}
	return c.Progs[pi]
}

func setProg(c *World, pi int, n *Node) {
	if c.Prog != nil {
		if pi == 0 {
			c.Prog = n
			return
		}
		c.Progs[pi-1] = n
		return
	}
	c.Progs[pi] = n
}

// nthNode returns the idx-th node in pre-order.
func nthNode(root *Node, idx int) *Node {
	var res *Node
	i := 0
	root.Walk(func(n *Node) {
		if i == idx {
			res = n
		}
		i++
	})
	return res
}

func simplerVals(v V) []V {
	var out []V
	switch v.T {
	case "b":
		if v.B {
			out = append(out, VB(false))
		}
	case "i":
		if v.I != 0 {
			out = append(out, VI(0))
		}
		if v.I != 1 && v.I != 0 {
			out = append(out, VI(1))
		}
		if v.I > 100 || v.I < -100 {
			out = append(out, VI(v.I/2))
		}
	case "s":
		if v.S != "" {
			out = append(out, VS(""))
			if len(v.S) > 1 {
				out = append(out, VS("a"))
			}
		}
	case "il", "is":
		if len(v.IL) > 1 {
			out = append(out, V{T: v.T, IL: append([]int64{}, v.IL[:len(v.IL)/2]...)})
			out = append(out, V{T: v.T, IL: append([]int64{}, v.IL[1:]...)})
		}
	case "sl", "ss":
		if len(v.SL) > 1 {
			out = append(out, V{T: v.T, SL: append([]string{}, v.SL[:len(v.SL)/2]...)})
			out = append(out, V{T: v.T, SL: append([]string{}, v.SL[1:]...)})
		}
	}
	return out
}

// variadic: operators that accept any number (>= 2) of operands, so dropping
// one keeps the program well-formed.
func variadic(name string) bool {
	switch builtinNames[name] {
	case "add", "sub", "mul", "div", "mod", "and", "or", "xor", "eq":
		return true
	}
	return !IsBuiltin(name)
}
