package sim

import (
	"errors"
	"fmt"
	"strconv"
	"strings"

	"github.com/onheap/eval"
)

// C07 — Compiled expressions are immutable, re-entrant and goroutine-safe.
//
// Simulated system: 1-3 shared Exprs (some in event mode) and 1-4 caller tasks,
// each with a script of calls (Eval, TryEval, Dump, DumpTable) and its own Ctx,
// binding and fault plan. Three engines over the same worlds:
//
//	inline  one task at a time, call by call (sequential histories)
//	bubble  testing/synctest: tasks yield at every seam, the scheduler picks who runs
//	baton   -race build: invisible hand-off, the race detector judges
//
// Oracle: every call's outcome equals the outcome of the same call run in
// isolation on a privately compiled copy (real engine as baseline); the deep
// snapshot of every shared Expr never changes; no task is stuck; no race report.
type propC07 struct{}

func init() {
	Register(propC07{})
	meta["C07"] = propMeta{
		Rule: "A case is one world: 1-3 shared expressions (generated programs, option subset and event mode each), 1-4 tasks x 1-4 calls (Eval, TryEval, Dump, DumpTable) each with its own binding and fault plan (failures by call index, cancellation, abort = callback panic unwinding through the call, re-entrant evaluation from inside an operator), and a schedule (seeded: switch probability, starved task, abandoned task). Engines: inline histories (35%), synctest bubble with yields at every seam (65%); the same worlds run in a -race build under the baton scheduler in a separate phase. Checked: each outcome (value, error identity, seam log, Dump/DumpTable text) equals the isolated baseline; deep reflection snapshot of every shared Expr equal to its post-Compile snapshot after every scheduler step; bounded liveness; zero race reports. evaluations = calls into the library. non-trivial = distinct worlds with at least two tasks, at least one task switch inside a call and at least one shared expression with and/or/if.",
		Assumptions: []string{
			"baseline is the real engine run in isolation on a private copy, so the check does not depend on the reference interpreters",
			"BATON-RACE relies on amd64 ordering and on the gc compiler not hoisting a load across a non-inlined call; event channels have ample capacity there",
			"the race detector is happens-before based: serialised execution suffices for it to flag any conflicting access to shared library memory",
			"sampling: a clean batch is evidence, not proof",
		},
		Engines:    []string{"INLINE histories", "BUBBLE (testing/synctest)", "BATON-RACE (-race build, //go:norace hand-off)"},
		FaultKinds: []string{"get_error", "get_unbound", "op_error", "cancel_from", "abort", "task_stall", "task_abandon", "reentrant_eval", "chan_capacity", "unavailable"},
	}
	extraPhases["C07"] = racePhase
	replayHooks["C07"] = raceReplay
}

func (propC07) ID() string { return "C07" }

var c07calls = []string{"eval", "eval", "eval", "tryeval", "tryeval", "evalbool", "tryevalbool", "dump", "dumptable", "dumptable_skip"}

func genC07Tasks(r *Rng, g *Gen, w *World, nt int) {
	for t := 0; t < nt; t++ {
		var script []Step
		nc := r.Range(1, 4)
		if w.Extra["deep"] == "1" {
			nc = r.Range(1, 7)
		}
		for c := 0; c < nc; c++ {
			kind := c07calls[r.Intn(len(c07calls))]
			s := Step{Op: kind, Expr: r.Intn(len(w.Exprs))}
			if kind != "dump" && kind != "dumptable" && kind != "dumptable_skip" {
				p := Plan{Kind: kind, Bind: g.Binding(), Clock: int64(r.Range(1, 1000)), CtxDone: r.P(0.1)}
				switch r.Intn(8) {
				case 0:
					p.FailAt = []int{r.Intn(6)}
				case 1:
					p.CancelFrom = r.Intn(6) + 1
				case 2:
					p.AbortAt = r.Intn(6) + 1
				}
				if kind == "tryeval" || kind == "tryevalbool" {
					for _, v := range w.Cfg.Vars {
						if r.P(0.3) {
							p.Unavail = append(p.Unavail, v.Name)
						}
					}
				}
				if r.P(0.15) {
					for _, v := range w.Cfg.Vars {
						if r.P(0.4) {
							p.Reenter = append(p.Reenter, v.Name)
						}
					}
				}
				if r.P(0.12) {
					// a binding of the wrong type (or nil): a call that fails in a
					// built-in, between calls that succeed
					for _, v := range w.Cfg.Vars {
						if r.P(0.3) {
							if r.P(0.25) {
								p.Bind[v.Name] = VNil()
							} else {
								p.Bind[v.Name] = g.Value([]Ty{TBool, TInt, TStr, TIntList, TStrList}[r.Intn(5)])
							}
						}
					}
				}
				s.Plan = &p
			}
			script = append(script, s)
		}
		w.Tasks = append(w.Tasks, script)
	}
}

func (propC07) Gen(r *Rng, tier string) *World {
	k := DrawKnobs(r)
	k.NowOp = r.P(0.3)
	if k.Budget > 0 { // program size is not what this property is about; keep worlds small and many
		k.Budget, k.MaxDepth, k.MaxFan, k.PLeaf = 0, 5, 4, 0.2
	}
	if k.NVars < 2 {
		k.NVars = r.Range(2, 6)
	}
	if k.NOps == 0 {
		k.NOps = r.Range(1, 3)
	}
	k.RawConsts = r.P(0.3)
	k.TupleOp = r.P(0.3)
	g := NewGen(r, k)
	w := &World{Prop: "C07", Extra: map[string]string{}}
	if tier == "thorough" {
		w.Extra["deep"] = "1"
	}
	if r.P(0.4) {
		g.C.Ops = append(g.C.Ops, OpSpec{Name: "subeval", Kind: "sub", Ret: TInt, Arity: 0})
		g.ob[TInt] = append(g.ob[TInt], len(g.C.Ops)-1)
	}
	ne := r.Range(1, 3)
	for i := 0; i < ne; i++ {
		if r.P(0.15) {
			// the type of the result depends on the binding: EvalBool/TryEvalBool
			// succeed for some calls and report a type error for others
			g.left = 60
			w.Progs = append(w.Progs, If(g.Expr(TBool, 3), g.Expr(TBool, 3), g.Expr([]Ty{TInt, TStr, TIntList}[r.Intn(3)], 3)))
			w.Exprs = append(w.Exprs, ExprSpec{Prog: i, Mask: r.Intn(16), Event: []string{"", "", "report", "debug", "both"}[r.Intn(5)]})
			continue
		}
		prog := g.Program()
		if k.LongLists && r.P(0.5) {
			// long lists on both sides of a set operator, evaluated on every call
			// with whatever the call binds: scratch structures a built-in keeps
			// between calls (pooled lookup sets, sorted copies) get used, reused
			// and — with a shorter list after a longer one — left partly stale
			lt, et := TIntList, TInt
			if r.P(0.3) {
				lt, et = TStrList, TStr
			}
			var test *Node
			if r.P(0.6) {
				test = Op("overlap", g.Leaf(lt), g.litOf(lt))
			} else {
				test = Op("in", g.Leaf(et), g.Leaf(lt))
			}
			prog = If(test, prog, prog.Clone())
		}
		w.Progs = append(w.Progs, prog)
		w.Exprs = append(w.Exprs, ExprSpec{Prog: i, Mask: r.Intn(16), Event: []string{"", "", "report", "debug", "both"}[r.Intn(5)]})
	}
	w.Cfg = g.C
	w.Cfg.ViaDirect = r.P(0.2)
	w.Cfg.DirStyle = r.Intn(8)
	w.Cfg.ViaAPI = r.P(0.4)
	if r.P(0.35) {
		w.Extra["engine"] = "inline"
		genC07Tasks(r, g, w, 1)
		if r.P(0.03) {
			// a LONG history on the same objects: dozens of calls over a few bindings
			binds := []map[string]V{g.Binding(), g.Binding(), g.Binding()}
			n := r.Range(30, 70)
			for len(w.Tasks[0]) < n {
				kind := []string{"eval", "eval", "tryeval", "evalbool", "dump"}[r.Intn(5)]
				s := Step{Op: kind, Expr: r.Intn(len(w.Exprs))}
				if kind != "dump" {
					p := Plan{Kind: kind, Bind: binds[r.Intn(3)]}
					if r.P(0.1) {
						p.FailAt = []int{r.Intn(4)}
					}
					s.Plan = &p
				}
				w.Tasks[0] = append(w.Tasks[0], s)
			}
		}
		// a longer sequential history
		for len(w.Tasks[0]) < 6 && r.P(0.7) {
			extra := &World{Cfg: w.Cfg, Exprs: w.Exprs}
			genC07Tasks(r, g, extra, 1)
			w.Tasks[0] = append(w.Tasks[0], extra.Tasks[0]...)
		}
	} else {
		w.Extra["engine"] = "bubble"
		nt := r.Range(2, 4)
		if tier == "thorough" {
			nt = r.Range(2, 6)
		}
		genC07Tasks(r, g, w, nt)
		w.ChCap = []int{0, 1, 2, 8, -1, -1}[r.Intn(6)]
	}
	w.Extra["sched_seed"] = strconv.FormatUint(r.U64(), 10)
	w.Extra["p_switch"] = []string{"0.2", "0.5", "0.9"}[r.Intn(3)]
	w.Extra["p_abandon"] = []string{"0", "0", "0.02"}[r.Intn(3)]
	w.Extra["stall"] = []string{"-1", "-1", "0", "1"}[r.Intn(4)]
	return w
}

// callResult is what one scripted call produced, reduced to what must be equal
// between the shared run and the isolated baseline.
type callResult struct {
	Class string
	Val   string
	Err   string
	Log   []string
	Text  string
	Abort bool
	Evs   []string
}

func reduce(o *Outcome, withEvents bool) callResult {
	r := callResult{Class: o.Class(), Val: ValStr(o.Val), Text: o.Text, Abort: o.Abort}
	if o.Err != nil {
		var se *SimErr
		if errors.As(o.Err, &se) {
			r.Err = fmt.Sprintf("%s@%d %s", se.Kind, se.Site, se.What)
		} else {
			r.Err = o.Err.Error()
		}
	}
	if o.Panic != nil && !o.Abort {
		r.Err = fmt.Sprintf("panic: %v", o.Panic)
	}
	if o.Env != nil {
		for _, c := range o.Env.Log {
			r.Log = append(r.Log, c.String())
		}
	}
	if withEvents {
		for _, ev := range o.Events {
			r.Evs = append(r.Evs, eventStr(ev))
		}
	}
	return r
}

func (a callResult) diff(b callResult) string {
	switch {
	case a.Class != b.Class || a.Val != b.Val || a.Err != b.Err:
		return fmt.Sprintf("shared run: %s %s %s; in isolation: %s %s %s", a.Class, a.Val, a.Err, b.Class, b.Val, b.Err)
	case a.Text != b.Text:
		return fmt.Sprintf("text differs:\nshared:    %s\nisolation: %s", a.Text, b.Text)
	case strings.Join(a.Log, "\n") != strings.Join(b.Log, "\n"):
		return fmt.Sprintf("seam log differs:\nshared:    %v\nisolation: %v", a.Log, b.Log)
	case strings.Join(a.Evs, "\n") != strings.Join(b.Evs, "\n"):
		return fmt.Sprintf("events differ:\nshared:    %v\nisolation: %v", a.Evs, b.Evs)
	}
	return ""
}

// c07run holds one world's shared state.
type c07run struct {
	w      *World
	ops    map[string]*OpSpec
	shared []*Compiled
	hashes []uint64
	texts  [][]string
}

func (rn *c07run) compile(i int, chanCap int) (*Compiled, *Violation) {
	spec := rn.w.Exprs[i]
	cfg := rn.w.Cfg
	cfg.Event = spec.Event
	c, err, pan := CompileSpec(&cfg, rn.w.Progs[spec.Prog], spec.Mask, rn.w.Cfg.ViaDirect, NewEnv(rn.ops, &Plan{}))
	if pan != nil {
		return nil, viol(rn.w, "compile-panic", "Compile panicked: %v", pan)
	}
	if err != nil {
		return nil, viol(rn.w, "compile-error", "Compile rejected a well-formed program: %v", err)
	}
	if spec.Event != "" && chanCap >= 0 {
		c.Ch = make(chan eval.Event, chanCap)
		c.Expr.EventChan = c.Ch
	}
	return c, nil
}

// exec performs one scripted call against exprs (shared or private).
func (rn *c07run) exec(exprs []*Compiled, s Step, yield func(kind, name string), depth int, isolated bool) *Outcome {
	c := exprs[s.Expr%len(exprs)]
	var env *Env
	if s.Plan != nil {
		env = NewEnv(rn.ops, s.Plan)
	} else {
		env = NewEnv(rn.ops, &Plan{})
	}
	env.Yield = yield
	ctx := &eval.Ctx{VariableFetcher: &SimFetcher{E: env}}
	if depth == 0 && s.Plan != nil {
		// re-entrancy: an operator, or the fetch of a "computed" variable,
		// evaluates the next shared expression from inside this call — with the
		// SAME Ctx when the clock is even (a request's Ctx serves every rule),
		// with a fresh one otherwise
		env.Sub = func() interface{} {
			next := exprs[(s.Expr+1)%len(exprs)]
			ikind := "eval"
			if s.Op == "tryeval" || s.Op == "tryevalbool" {
				ikind = "tryeval"
			}
			ienv := NewEnv(rn.ops, &Plan{Kind: ikind, Bind: s.Plan.Bind, Unavail: s.Plan.Unavail, Clock: s.Plan.Clock})
			ienv.Yield = yield
			var o Outcome
			if s.Plan.Clock%2 == 0 && !isolated {
				// same Ctx object, its fetcher pointed at the inner call's Env for
				// the duration. The isolated baseline never does this: there the
				// inner call gets a Ctx of its own, so outer and inner cannot
				// interfere and the baseline shows what re-entrancy must not change.
				f := simOf(ctx.VariableFetcher)
				outer := f.E
				f.E = ienv
				o = next.RunCtx(ctx, ienv, ikind)
				f.E = outer
			} else {
				o = next.RunEnv(ienv, ikind)
			}
			return int64(hash64(o.Class()+ValStr(o.Val)) % 1000)
		}
	}
	kind := s.Op
	o := c.RunCtx(ctx, env, kind)
	return &o
}

func (pr propC07) Run(w *World, st *Stats) *Violation {
	ops := SpecMap(w.Cfg.Ops)
	wh := w.Hash()
	st.World(wh)
	rn := &c07run{w: w, ops: ops}
	engine := w.Extra["engine"]
	if engine == "" {
		engine = "inline"
	}
	if raceBuild {
		engine = "baton"
	}
	if engine == "bubble" && workerT == nil {
		engine = "inline"
	}
	// isolated baselines: every call on privately compiled copies. Under the
	// race detector they are computed AFTER the concurrent phase, so that the
	// first evaluations of a fresh process happen in the tasks themselves (an
	// unsynchronised lazy initialisation inside the library is then visible).
	ncalls := 0
	for _, script := range w.Tasks {
		ncalls += len(script)
	}
	base := make([][]callResult, len(w.Tasks))
	var baseViol *Violation
	computeBase := func() {
		ncalls = 0
		for ti, script := range w.Tasks {
			for _, s := range script {
				priv := make([]*Compiled, len(w.Exprs))
				for i := range w.Exprs {
					c, v := rn.compile(i, 1<<12)
					if v != nil {
						baseViol = v
						return
					}
					priv[i] = c
				}
				st.Evals += int64(len(priv))
				o := rn.exec(priv, s, nil, 0, true)
				st.Evals++
				ncalls++
				if o.Panic != nil && !o.Abort {
					baseViol = viol(w, "panic", "task %d: %s panicked in isolation: %v\n%s", ti, s.Op, o.Panic, trimStack(o.Stack))
				}
				base[ti] = append(base[ti], reduce(o, engine == "inline"))
				st.AddFaults(o.Env.Fired)
			}
		}
	}
	if engine != "baton" {
		computeBase()
		if baseViol != nil {
			return baseViol
		}
	}
	st.T("world %x engine=%s tasks=%d calls=%d", wh, engine, len(w.Tasks), ncalls)

	// shared expressions (bubble creates their channels inside the bubble)
	rn.shared = make([]*Compiled, len(w.Exprs))
	setup := func(chanCap func(i int) int) *Violation {
		for i := range w.Exprs {
			c, v := rn.compile(i, chanCap(i))
			if v != nil {
				return v
			}
			c.NoDrain = engine != "inline"
			rn.shared[i] = c
			rn.hashes = append(rn.hashes, SnapHash(c.Expr))
		}
		return nil
	}
	checkSnap := func(when string) *Violation {
		for i, c := range rn.shared {
			if h := SnapHash(c.Expr); h != rn.hashes[i] {
				cfg := w.Cfg
				cfg.Event = w.Exprs[i].Event
				fresh, _, _ := CompileSpec(&cfg, w.Progs[w.Exprs[i].Prog], w.Exprs[i].Mask, w.Cfg.ViaDirect, NewEnv(ops, &Plan{}))
				d := SnapDiff(SnapText(fresh.Expr), SnapText(c.Expr))
				return viol(w, "program-modified", "shared expression %d changed %s:\n%s", i, when, d)
			}
		}
		return nil
	}
	results := make([][]*Outcome, len(w.Tasks))
	ample := func(i int) int { return ncalls*(2*400+16) + 64 }

	switch engine {
	case "inline":
		if v := setup(ample); v != nil {
			return v
		}
		for ti, script := range w.Tasks {
			for ci, s := range script {
				o := rn.exec(rn.shared, s, nil, 0, false)
				st.Evals++
				st.Steps += int64(o.Env.N)
				results[ti] = append(results[ti], o)
				st.T(" t%d c%d %s -> %s %s", ti, ci, s.Op, o.Class(), ValStr(o.Val))
				if v := checkSnap(fmt.Sprintf("during call %d (%s) of the history", ci, s.Op)); v != nil {
					return v
				}
				st.Path(pathHash(o) ^ hash64(s.Op))
			}
		}
		st.Probe("inline_histories")
	case "bubble":
		b := &Bubble{W: w, St: st}
		for ti, script := range w.Tasks {
			b.Tasks = append(b.Tasks, &mtask{id: ti, steps: script})
		}
		var sv *Violation
		b.Setup = func(b *Bubble) {
			sv = setup(func(i int) int {
				if w.ChCap < 0 {
					return ample(i)
				}
				return w.ChCap
			})
			for _, c := range rn.shared {
				if c != nil {
					b.Chans = append(b.Chans, c.Ch)
				}
			}
		}
		b.Knobs = BubbleKnobs{PSwitch: 0.5, PRecv: 0.5, StallTask: -1, MaxSteps: 400 * ncalls}
		if v, e := strconv.ParseFloat(w.Extra["p_switch"], 64); e == nil {
			b.Knobs.PSwitch = v
		}
		if v, e := strconv.ParseFloat(w.Extra["p_abandon"], 64); e == nil {
			b.Knobs.PAbandon = v
		}
		if v, e := strconv.Atoi(w.Extra["stall"]); e == nil && v < len(w.Tasks) {
			b.Knobs.StallTask = v
			if v >= 0 {
				st.Faults["task_stall"]++
			}
		}
		b.Exec = func(task, call int, s Step, yield func(kind, name string)) *Outcome {
			return rn.exec(rn.shared, s, yield, 0, false)
		}
		b.AfterStep = func(b *Bubble) *Violation {
			if sv != nil {
				return sv
			}
			return checkSnap(fmt.Sprintf("by scheduler step %d", b.Steps))
		}
		b.Run(workerT)
		st.Steps += int64(b.Steps)
		st.Sched(schedHash(b.Taken))
		st.T(" bubble steps=%d taken=%v", b.Steps, b.Taken)
		bw := w.Clone()
		bw.Sched = append([]int(nil), b.Taken...)
		delete(bw.Extra, "sched_seed")
		if b.Viol != nil {
			b.Viol.World = bw
			return b.Viol
		}
		if b.Stuck {
			return viol(bw, "stuck", "a task did not finish although faults stopped and the consumer drained: %s", b.StuckInfo)
		}
		switches := 0
		for i := 1; i < len(b.Taken); i++ {
			if b.Taken[i] < actRecv && b.Taken[i-1] < actRecv && b.Taken[i] != b.Taken[i-1] {
				switches++
			}
		}
		for ti, tk := range b.Tasks {
			results[ti] = tk.outcomes
			st.Evals += int64(len(tk.outcomes))
			if tk.abandon && len(results[ti]) > 0 && tk.callsDone <= len(tk.steps) && tk.kill {
				// the call that was in flight when the task was abandoned never
				// completed from the caller's point of view
				results[ti] = results[ti][:len(results[ti])-1]
			}
		}
		w = bw
		ctrl := false
		for _, p := range w.Progs {
			if hasControl(p) {
				ctrl = true
			}
		}
		if len(w.Tasks) >= 2 && switches > 0 && ctrl {
			st.Nontrivial(wh)
		}
		st.ProbeN("task_switches_at_seams", switches)
		st.Faults["chan_capacity_"+strconv.Itoa(w.ChCap)]++
		st.Probe("bubble_runs")
	case "baton":
		if v := setup(ample); v != nil {
			return v
		}
		seed, _ := strconv.ParseUint(w.Extra["sched_seed"], 10, 64)
		pSwitch, _ := strconv.ParseFloat(w.Extra["p_switch"], 64)
		pAbandon, _ := strconv.ParseFloat(w.Extra["p_abandon"], 64)
		_, useRng := w.Extra["sched_seed"]
		perTask := make([][]*Outcome, len(w.Tasks))
		taken := RunBaton(len(w.Tasks), seed, useRng, pSwitch, pAbandon, w.Sched, func(task int, yield func(kind, name string)) {
			for _, s := range w.Tasks[task] {
				o := rn.exec(rn.shared, s, yield, 0, false)
				perTask[task] = append(perTask[task], o)
				if batonKilled(int32(task)) {
					break // abandoned inside this call
				}
			}
		})
		for ti := range perTask {
			results[ti] = perTask[ti]
			st.Evals += int64(len(perTask[ti]))
			if batonKilled(int32(ti)) && len(results[ti]) > 0 {
				results[ti] = results[ti][:len(results[ti])-1] // in flight when abandoned
			}
		}
		st.Steps += int64(len(taken))
		st.Sched(schedHash(taken))
		st.T(" baton taken=%v", taken)
		bw := w.Clone()
		bw.Sched = taken
		delete(bw.Extra, "sched_seed")
		w = bw
		if len(w.Tasks) >= 2 {
			st.Nontrivial(wh)
		}
		st.Probe("baton_runs")
		computeBase()
		if baseViol != nil {
			return baseViol
		}
	}
	if v := checkSnap("by the end of the run"); v != nil {
		v.World = w
		return v
	}
	// every completed call equals its isolated baseline
	for ti := range results {
		for ci, o := range results[ti] {
			if o.Panic != nil && !o.Abort {
				if _, killed := o.Panic.(taskKilled); killed {
					continue // the task was abandoned inside this call
				}
				return viol(w, "panic", "task %d call %d (%s) panicked: %v\n%s", ti, ci, w.Tasks[ti][ci].Op, o.Panic, trimStack(o.Stack))
			}
			got := reduce(o, engine == "inline")
			if d := got.diff(base[ti][ci]); d != "" {
				return viol(w, "differs-from-isolation", "task %d call %d (%s on expression %d, %s): %s", ti, ci, w.Tasks[ti][ci].Op, w.Tasks[ti][ci].Expr, engine, d)
			}
			if o.Env != nil {
				st.AddFaults(map[string]int{"reentrant_eval": o.Env.Fired["reentrant_eval"], "abort": o.Env.Fired["abort"]})
			}
		}
	}
	st.Sample(w.Canon())
	return nil
}
