package sim

import (
	"encoding/json"
	"fmt"
	"os"
	"path/filepath"
	"strings"
	"sync"
	"time"
)

// racePhase runs the property's worlds in the -race build (BATON engine). A
// race report halts the worker (GORACE=halt_on_error=1 exitcode=66); the world
// that was running is re-run alone to confirm and reported with the
// detector's output.
func racePhase(prop, tier string, base uint64, cfg tierCfg, workers int, tmp string, agg *Aggregate) int {
	bin := os.Getenv("VERIF_RACE_BIN")
	if bin == "" {
		fmt.Println("HARNESS-ERROR: no -race harness binary (VERIF_RACE_BIN)")
		return 2
	}
	runs := cfg.RaceRuns
	if runs == 0 {
		runs = cfg.Runs / 8
	}
	if v := envInt("VERIF_RACE_RUNS", 0); v > 0 {
		runs = uint64(v)
	}
	// the race phase gets what is left of the check's wall-clock cap, at least a third of it
	left := time.Duration(cfg.CapS)*time.Second - time.Since(checkStart)
	if min := time.Duration(cfg.CapS) * time.Second / 3; left < min {
		left = min
	}
	deadline := time.Now().Add(left).UnixMilli()
	var wg sync.WaitGroup
	var mu sync.Mutex
	fail := ""
	type raceHit struct {
		world  *World
		report string
	}
	var hits []raceHit
	raceStats := NewStats()
	sets := [4]map[uint64]struct{}{{}, {}, {}, {}}
	var raceRuns uint64
	for wi := 0; wi < workers; wi++ {
		cnt := runs / uint64(workers)
		if uint64(wi) < runs%uint64(workers) {
			cnt++
		}
		// race worlds use their own index range so they differ from the main phase's
		spec := WorkerSpec{Prop: prop, Tier: tier, Base: base ^ 0x5ace, Start: uint64(wi), Stride: uint64(workers), Count: cnt,
			Deadline: deadline, Out: filepath.Join(tmp, fmt.Sprintf("r%d.json", wi))}
		wg.Add(1)
		go func() {
			defer wg.Done()
			res, out, err := spawn(bin, spec, 4, []string{"GORACE=halt_on_error=1 exitcode=66"}, sets, &mu)
			mu.Lock()
			defer mu.Unlock()
			if err == errRace {
				w, lerr := LoadWorld(spec.Out + ".cur")
				if lerr != nil {
					fail = fmt.Sprintf("race report but no current world: %v\n%s", lerr, out)
					return
				}
				hits = append(hits, raceHit{w, raceReportOf(out)})
				return
			}
			if err != nil {
				fail = fmt.Sprintf("%v\n%s", err, out)
				return
			}
			if res.Crash != "" {
				fail = res.Crash
				return
			}
			raceRuns += res.Runs
			for k, v := range res.Stats.Probes {
				raceStats.Probes[k] += v
			}
			agg.Violations = append(agg.Violations, res.Violations...)
			agg.Stats.Evals += res.Stats.Evals
			agg.Stats.Steps += res.Stats.Steps
			agg.Stats.Skipped += res.Stats.Skipped
		}()
	}
	wg.Wait()
	if fail != "" {
		fmt.Println("HARNESS-ERROR (race phase):", firstLines(fail, 40))
		return 2
	}
	confirmed := 0
	for i, h := range hits {
		if i >= 3 {
			break
		}
		// confirm alone in a fresh process, then shrink while the report persists
		path := filepath.Join(tmp, fmt.Sprintf("race%d.json", i))
		if rep, ok := raceReproduces(bin, prop, h.world, path); ok {
			w, rep2 := shrinkRace(bin, prop, h.world, rep, tmp, 40*time.Second)
			v := &Violation{Prop: prop, Kind: "data-race", Msg: "the race detector reports a data race between concurrent calls on shared library state:\n" + rep2, World: w}
			agg.Violations = append(agg.Violations, v)
			agg.raceOf[v] = rep2
			confirmed++
		} else {
			// never a VIOLATION without a reproducible witness; the driver turns
			// this into exit 2 unless another violation stands on its own
			fmt.Println("note: a race report did not reproduce when its world was run alone (6 attempts):\n" + firstLines(h.report, 30))
			agg.unconfirmed++
		}
	}
	agg.Extra["race_phase"] = map[string]interface{}{
		"binary": "go test -race build of the same harness", "engine": "BATON-RACE", "worlds_run": raceRuns,
		"race_reports": len(hits), "confirmed": confirmed, "distinct_schedules": len(sets[3]), "probes": raceStats.Probes,
	}
	for k := range sets[3] {
		agg.sets[3][k] = struct{}{}
	}
	for k := range sets[0] {
		agg.sets[0][k] = struct{}{}
	}
	for k := range sets[1] {
		agg.sets[1][k] = struct{}{}
	}
	agg.Stats.Worlds += int64(raceRuns)
	return 0
}

func raceReportOf(out string) string {
	i := strings.Index(out, "WARNING: DATA RACE")
	if i < 0 {
		return firstLines(out, 40)
	}
	rep := out[i:]
	if j := strings.Index(rep, "=================="); j > 0 {
		rep = rep[:j]
	}
	// keep the frames that matter
	var keep []string
	for _, l := range strings.Split(rep, "\n") {
		if strings.Contains(l, "runtime.") || strings.Contains(l, "testing.") {
			continue
		}
		keep = append(keep, l)
		if len(keep) > 60 {
			break
		}
	}
	return strings.Join(keep, "\n")
}

// raceReproduces runs one world alone in the race binary. The schedule is
// deterministic, but the detector itself is not entirely: its shadow memory
// keeps four accesses per word and evicts at random, so an existing race is
// occasionally not reported. A few attempts are made; one report suffices.
func raceReproduces(bin, prop string, w *World, path string) (string, bool) {
	b, _ := json.Marshal(map[string]interface{}{"property": prop, "kind": "data-race", "world": w})
	os.WriteFile(path, b, 0o644)
	spec := WorkerSpec{Prop: prop, Count: 1, Stride: 1, Replay: path, Out: path + ".out"}
	for attempt := 0; attempt < 6; attempt++ {
		sets := [4]map[uint64]struct{}{{}, {}, {}, {}}
		_, out, err := spawn(bin, spec, 4, []string{"GORACE=halt_on_error=1 exitcode=66"}, sets, nil)
		if err == errRace {
			return raceReportOf(out), true
		}
	}
	return "", false
}

// shrinkRace: fewer tasks, fewer calls, smaller programs while a report persists.
func shrinkRace(bin, prop string, w *World, rep string, tmp string, budget time.Duration) (*World, string) {
	deadline := time.Now().Add(budget)
	cur, curRep := w, rep
	for improved := true; improved && time.Now().Before(deadline); {
		improved = false
		for i, cand := range candidates(cur) {
			if time.Now().After(deadline) || i > 60 {
				break
			}
			if worldSize(cand) >= worldSize(cur) {
				continue
			}
			if r, ok := raceReproduces(bin, prop, cand, filepath.Join(tmp, "shrink.json")); ok {
				cur, curRep = cand, r
				improved = true
				break
			}
		}
	}
	return cur, curRep
}

// raceReplay handles `check replay` for worlds recorded as data races: they
// must be run in the -race build.
func raceReplay(path string, w *World, kind string) (int, bool) {
	if kind != "data-race" {
		return 0, false
	}
	bin := os.Getenv("VERIF_RACE_BIN")
	if bin == "" {
		bin = filepath.Join(verifDir, "bin", "sim.race.test")
	}
	tmp, err := os.MkdirTemp(filepath.Join(verifDir, "bin"), "replay-")
	if err != nil {
		fmt.Println("cannot create scratch dir:", err)
		return 2, true
	}
	defer os.RemoveAll(tmp)
	rep, ok := raceReproduces(bin, w.Prop, w, filepath.Join(tmp, "w.json"))
	if !ok {
		fmt.Println("replay: no race report")
		return 0, true
	}
	fmt.Println(rep)
	fmt.Printf("VIOLATION property=%s replay=%s\n", w.Prop, path)
	return 1, true
}
