module verifsim

go 1.26

require github.com/onheap/eval v0.0.0

replace github.com/onheap/eval => /repo
