package sim

import (
	"fmt"
	"runtime/debug"
	"strconv"
	"testing"
	"testing/synctest"
	"time"

	"github.com/onheap/eval"
)

// ---------------------------------------------------------------------------
// BUBBLE: cooperative multi-task simulation inside a testing/synctest bubble.
//
// Tasks are real goroutines created inside the bubble; each parks at every seam
// (Get, Cached, user-operator entry) on its own resume channel. The bubble's
// root goroutine is the scheduler AND the event consumer: it loops
// synctest.Wait() (quiescence: every task is parked at a seam, blocked in a
// send on an event channel, or finished), then takes the next action — resume
// task t, receive one event from channel c (which completes the rendezvous of
// a blocked sender), abandon a task — from the world's explicit schedule or,
// beyond it, from the PRNG. Exactly one task runs between two Waits, so one
// world is one interleaving.
// ---------------------------------------------------------------------------

// Schedule action codes.
const (
	actResume  = 0    // + task index
	actRecv    = 1000 // + channel index
	actAbandon = 2000 // + task index
)

// Recv is one event as the consumer received it.
type Recv struct {
	Ev       eval.Event // retained exactly as received (shares memory with the sender if the library did not copy)
	Copy     eval.Event // deep copy taken at receipt
	Chan     int
	Step     int  // scheduler step at which it was received
	Returned bool // received after the call that produced it had returned
}

type mtask struct {
	id        int
	steps     []Step
	resume    chan struct{}
	parked    bool
	started   bool
	done      bool
	abandon   bool
	kill      bool
	where     string
	outcomes  []*Outcome
	callsDone int
	crash     interface{}
}

type taskKilled struct{}

// Bubble is one multi-task run.
type Bubble struct {
	W     *World
	St    *Stats
	Tasks []*mtask
	Chans []chan eval.Event
	Recvd []Recv
	Taken []int // the schedule actually executed
	Steps int
	rng   *Rng
	pos   int
	Knobs BubbleKnobs

	// Setup runs inside the bubble before any task starts: everything tasks
	// block on (event channels in particular) must be created there, or
	// synctest does not regard the block as durable.
	Setup func(b *Bubble)
	// Exec performs one scripted call of a task; env hooks are wired by the
	// caller through the yield function it is given.
	Exec func(task int, call int, s Step, yield func(kind, name string)) *Outcome
	// AfterStep is the invariant evaluated after every scheduler step.
	AfterStep func(b *Bubble) *Violation
	// OnRecv lets the property look at an event right when it is received.
	OnRecv func(b *Bubble, r *Recv)

	sleeping int // tasks currently inside Sleep

	Stuck     bool
	StuckInfo string
	Viol      *Violation
}

// BubbleKnobs are the scheduler's swarm parameters.
type BubbleKnobs struct {
	PSwitch   float64 // chance to switch away from the task that ran last
	PRecv     float64 // chance to serve the consumer when events are pending
	PAbandon  float64 // chance (per decision) to abandon a parked task
	StallTask int     // a task that is starved while others can run (-1 none)
	MaxSteps  int
}

func deepCopyEvent(ev eval.Event) eval.Event {
	c := eval.Event{EventType: ev.EventType}
	if ev.Stack != nil {
		c.Stack = make([]eval.Value, len(ev.Stack))
		for i, v := range ev.Stack {
			c.Stack[i] = CopyVal(v)
		}
	}
	switch d := ev.Data.(type) {
	case eval.OpEventData:
		n := d
		if d.Params != nil {
			n.Params = make([]eval.Value, len(d.Params))
			for i, v := range d.Params {
				n.Params[i] = CopyVal(v)
			}
		}
		n.Res = CopyVal(d.Res)
		c.Data = n
	default:
		c.Data = ev.Data
	}
	return c
}

// scribble is a consumer writing to an event it owns: every slot of the stack
// snapshot and of the argument list is overwritten, and one element appended.
func scribble(ev eval.Event) {
	const poison = "overwritten-by-the-consumer"
	over := func(s []eval.Value) {
		for i := range s {
			s[i] = poison
		}
		_ = append(s, poison)
	}
	over(ev.Stack)
	if d, ok := ev.Data.(eval.OpEventData); ok {
		over(d.Params)
	}
}

func eventsEqual(a, b eval.Event) bool {
	if a.EventType != b.EventType || len(a.Stack) != len(b.Stack) {
		return false
	}
	for i := range a.Stack {
		if !ValEq(a.Stack[i], b.Stack[i]) {
			return false
		}
	}
	da, oka := a.Data.(eval.OpEventData)
	db, okb := b.Data.(eval.OpEventData)
	if oka != okb {
		return false
	}
	if oka {
		if da.OpName != db.OpName || da.IsFastOp != db.IsFastOp || len(da.Params) != len(db.Params) || !ValEq(da.Res, db.Res) || (da.Err == nil) != (db.Err == nil) {
			return false
		}
		for i := range da.Params {
			if !ValEq(da.Params[i], db.Params[i]) {
				return false
			}
		}
		return true
	}
	return ValEq(a.Data, b.Data)
}

func eventStr(ev eval.Event) string {
	switch d := ev.Data.(type) {
	case eval.OpEventData:
		ps := make([]interface{}, len(d.Params))
		for i, p := range d.Params {
			ps[i] = p
		}
		e := ""
		if d.Err != nil {
			e = " err"
		}
		return fmt.Sprintf("OP_EXEC %s%s -> %s%s", d.OpName, ValStr(ps), ValStr(d.Res), e)
	case eval.LoopEventData:
		st := make([]interface{}, len(ev.Stack))
		for i, p := range ev.Stack {
			st[i] = p
		}
		return fmt.Sprintf("LOOP idx=%d %v stack=%s", d.CurtIdx, d.NodeValue, ValStr(st))
	}
	return fmt.Sprintf("%v", ev)
}

// Sleep lets the running task spend d of simulated time (a slow callback). The
// scheduler advances the bubble's clock; no other task runs meanwhile.
func (b *Bubble) Sleep(d time.Duration) {
	b.sleeping++
	time.Sleep(d)
	b.sleeping--
}

// enabled lists the actions possible in the current quiescent state.
func (b *Bubble) enabled() []int {
	var acts []int
	for _, t := range b.Tasks {
		if (t.parked || !t.started) && !t.done && !t.abandon {
			acts = append(acts, actResume+t.id)
		}
	}
	for ci, ch := range b.Chans {
		if ch == nil {
			continue
		}
		if len(ch) > 0 || b.senderBlocked(ci) {
			acts = append(acts, actRecv+ci)
		}
	}
	return acts
}

// senderBlocked: a started task that is neither parked nor done is, at
// quiescence, blocked in a channel send. Which channel is not observable from
// outside; with one event channel per bubble family it is that one, otherwise
// any non-nil channel may be tried (a non-blocking receive simply fails).
func (b *Bubble) senderBlocked(ci int) bool {
	for _, t := range b.Tasks {
		if t.started && !t.parked && !t.done {
			return true
		}
	}
	return false
}

func (b *Bubble) allDone() bool {
	for _, t := range b.Tasks {
		if !t.done && !t.abandon {
			return false
		}
	}
	return true
}

// next picks the next action: from the explicit schedule while it lasts,
// then from the PRNG (when the world carries a schedule seed), then the
// deterministic fair default (lowest enabled action, consumer first).
func (b *Bubble) next(acts []int, last int, draining bool) int {
	has := func(a int) bool {
		for _, x := range acts {
			if x == a {
				return true
			}
		}
		return false
	}
	for b.pos < len(b.W.Sched) {
		a := b.W.Sched[b.pos]
		b.pos++
		if a >= actAbandon {
			t := a - actAbandon
			if t < len(b.Tasks) && b.Tasks[t].parked && !b.Tasks[t].done {
				return a
			}
			continue
		}
		if has(a) {
			return a
		}
	}
	if b.rng == nil || draining {
		// fair default: serve the consumer first, then round-robin after the last task
		for _, a := range acts {
			if a >= actRecv {
				return a
			}
		}
		for _, a := range acts {
			if a > last && a < actRecv {
				return a
			}
		}
		return acts[0]
	}
	r := b.rng
	var recvs, resumes []int
	for _, a := range acts {
		if a >= actRecv {
			recvs = append(recvs, a)
		} else {
			resumes = append(resumes, a)
		}
	}
	if len(resumes) > 0 && r.P(b.Knobs.PAbandon) {
		t := resumes[r.Intn(len(resumes))]
		if b.Tasks[t].parked {
			return actAbandon + t
		}
	}
	if len(recvs) > 0 && (len(resumes) == 0 || r.P(b.Knobs.PRecv)) {
		return recvs[r.Intn(len(recvs))]
	}
	if len(resumes) == 0 {
		return acts[r.Intn(len(acts))]
	}
	// starve the stalled task while anything else can run
	if b.Knobs.StallTask >= 0 && len(resumes) > 1 {
		var rs []int
		for _, a := range resumes {
			if a != b.Knobs.StallTask {
				rs = append(rs, a)
			}
		}
		resumes = rs
	}
	if has(last) && last < actRecv && !r.P(b.Knobs.PSwitch) {
		for _, a := range resumes {
			if a == last {
				return a
			}
		}
	}
	return resumes[r.Intn(len(resumes))]
}

// Run executes the bubble. It must be called with the worker's *testing.T.
func (b *Bubble) Run(t *testing.T) {
	if b.Knobs.MaxSteps == 0 {
		b.Knobs.MaxSteps = 3000
	}
	if s, ok := b.W.Extra["sched_seed"]; ok {
		if v, err := strconv.ParseUint(s, 10, 64); err == nil {
			b.rng = NewRng(v)
		}
	}
	defer func() {
		// synctest panics when the bubble ends with blocked goroutines; our own
		// cleanup below prevents that, so a panic here is a harness problem or a
		// genuine deadlock inside the library
		if r := recover(); r != nil {
			b.Stuck = true
			b.StuckInfo = fmt.Sprintf("bubble ended abnormally: %v", r)
		}
	}()
	synctest.Test(t, func(t *testing.T) {
		if b.Setup != nil {
			b.Setup(b)
		}
		for _, tk := range b.Tasks {
			tk := tk
			tk.resume = make(chan struct{})
			go func() {
				defer func() {
					if r := recover(); r != nil {
						if _, ok := r.(taskKilled); !ok {
							tk.crash = fmt.Sprintf("%v\n%s", r, debug.Stack())
						}
					}
					tk.done = true
				}()
				<-tk.resume
				if tk.kill {
					return
				}
				yield := func(kind, name string) {
					tk.where = kind + ":" + name
					tk.parked = true
					<-tk.resume
					if tk.kill {
						panic(taskKilled{})
					}
				}
				for ci, s := range tk.steps {
					o := b.Exec(tk.id, ci, s, yield)
					tk.outcomes = append(tk.outcomes, o)
					tk.callsDone++
					if tk.kill {
						return // abandoned inside this call
					}
				}
			}()
		}
		last := -1
		draining := false
		for {
			synctest.Wait()
			for b.sleeping > 0 {
				// a task is inside a slow call: nothing else is runnable, so the
				// simulated clock jumps to the end of its sleep
				b.St.Faults["slow_call"]++
				time.Sleep(time.Second)
				synctest.Wait()
			}
			if b.AfterStep != nil && b.Viol == nil {
				if v := b.AfterStep(b); v != nil {
					b.Viol = v
					draining = true
				}
			}
			for _, tk := range b.Tasks {
				if tk.crash != nil && b.Viol == nil {
					b.Viol = &Violation{Prop: b.W.Prop, Kind: "harness-task-crash", Msg: fmt.Sprint(tk.crash), World: b.W}
				}
			}
			if b.allDone() {
				// the calls have returned; whatever is still buffered is received now
				pending := false
				for _, ch := range b.Chans {
					if ch != nil && len(ch) > 0 {
						pending = true
					}
				}
				if !pending {
					break
				}
				draining = true
			}
			if b.Steps >= b.Knobs.MaxSteps && !draining {
				draining = true // faults stop: fair scheduling, consumer drains
			}
			if b.Steps >= 2*b.Knobs.MaxSteps+2000 {
				b.Stuck = true
				b.StuckInfo = "step budget exhausted although faults stopped and the consumer drained"
				break
			}
			acts := b.enabled()
			if len(acts) == 0 {
				b.Stuck = true
				b.StuckInfo = "no task can run and no event is pending, yet not every task has finished"
				break
			}
			a := b.next(acts, last, draining)
			b.Taken = append(b.Taken, a)
			b.Steps++
			switch {
			case a >= actAbandon:
				tk := b.Tasks[a-actAbandon]
				tk.abandon = true
				b.St.Faults["task_abandon"]++
			case a >= actRecv:
				// receive one event, from the chosen channel or, if it has none, the next that has
				for k := 0; k < len(b.Chans); k++ {
					ci := (a - actRecv + k) % len(b.Chans)
					if b.Chans[ci] == nil {
						continue
					}
					got := false
					select {
					case ev := <-b.Chans[ci]:
						r := Recv{Ev: ev, Copy: deepCopyEvent(ev), Chan: ci, Step: b.Steps}
						b.Recvd = append(b.Recvd, r)
						if b.OnRecv != nil {
							b.OnRecv(b, &b.Recvd[len(b.Recvd)-1])
						}
						got = true
					default:
					}
					if got {
						break
					}
				}
			default:
				tk := b.Tasks[a]
				if last >= 0 && last != a && last < actRecv {
					b.St.Probe("task_switches")
				}
				tk.started = true
				tk.parked = false
				tk.resume <- struct{}{}
				last = a
			}
		}
		// cleanup: release everything that is still blocked so the bubble can end
		for round := 0; round < 100000; round++ {
			synctest.Wait()
			progress := false
			for _, tk := range b.Tasks {
				if tk.done {
					continue
				}
				if tk.parked || !tk.started {
					tk.kill = true
					tk.started = true
					tk.parked = false
					tk.resume <- struct{}{}
					progress = true
					break
				}
			}
			if progress {
				continue
			}
			all := true
			for _, tk := range b.Tasks {
				if !tk.done {
					all = false
				}
			}
			if all {
				break
			}
			// someone is blocked in a send: receive and drop
			got := false
			for _, ch := range b.Chans {
				if ch == nil {
					continue
				}
				select {
				case <-ch:
					got = true
				default:
				}
				if got {
					break
				}
			}
			if !got {
				break // genuinely blocked elsewhere: synctest will report it
			}
		}
	})
}

func schedHash(taken []int) uint64 {
	h := uint64(0xcbf29ce484222325)
	for _, a := range taken {
		h = (h ^ uint64(a+1)) * 0x100000001b3
	}
	return h
}
