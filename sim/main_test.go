package sim

import (
	"encoding/json"
	"fmt"
	"os"
	"testing"
)

// The harness is one `go test -c` binary (testing/synctest needs a *testing.T).
// VERIF_ROLE selects what it does:
//
//	driver: DriverMain(os.Args[1:])         (check <id> <tier> | check replay <path>)
//	worker: TestWorker runs the spec in VERIF_WORKER_SPEC
func TestMain(m *testing.M) {
	switch os.Getenv("VERIF_ROLE") {
	case "driver":
		os.Exit(DriverMain(os.Args[1:]))
	}
	os.Exit(m.Run())
}

var workerT *testing.T

func TestWorker(t *testing.T) {
	if os.Getenv("VERIF_ROLE") != "worker" {
		t.Skip("not a worker invocation")
	}
	var spec WorkerSpec
	if err := json.Unmarshal([]byte(os.Getenv("VERIF_WORKER_SPEC")), &spec); err != nil {
		fmt.Println("bad worker spec:", err)
		os.Exit(2)
	}
	workerT = t
	res := RunWorker(spec)
	if err := WriteResult(res); err != nil {
		fmt.Println("cannot write result:", err)
		os.Exit(2)
	}
}
