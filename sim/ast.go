package sim

import (
	"strconv"
	"strings"
)

// Ty is the static type the generator assigns to a sub-expression: the type it
// evaluates to *if it does not fail*.
type Ty int

const (
	TBool Ty = iota
	TInt
	TStr
	TIntList
	TStrList
	TIntSet // only as constants / bindings
	TStrSet
	TAny    // ill-typed workloads only
	TRawInt // a Go `int` (not int64): what a carelessly written user operator or constant table yields
)

func (t Ty) String() string {
	return [...]string{"bool", "int", "str", "ilist", "slist", "iset", "sset", "any", "rawint"}[t]
}

// Node kinds.
const (
	KLit   = "lit"   // literal written in the source: Val
	KConst = "const" // name resolved through Config.ConstantMap: Name
	KVar   = "var"   // variable: Name
	KOp    = "op"    // operator application (built-in or custom): Name, Args
	KIf    = "if"    // (if c a b): Args[0..2]
)

// Node is one node of a program tree. The same type is used for generated
// source programs and for trees read back from Dump output (where constants
// have already been replaced by their values, so KConst never appears).
type Node struct {
	K    string  `json:"k"`
	Name string  `json:"n,omitempty"`
	Val  *V      `json:"v,omitempty"`
	Args []*Node `json:"a,omitempty"`
	Raw  string  `json:"r,omitempty"` // how an integer literal is spelled in the source, when not canonically (007, +5)
}

func Lit(v V) *Node                    { return &Node{K: KLit, Val: &v} }
func Const(name string) *Node          { return &Node{K: KConst, Name: name} }
func Var(name string) *Node            { return &Node{K: KVar, Name: name} }
func Op(name string, a ...*Node) *Node { return &Node{K: KOp, Name: name, Args: a} }
func If(c, a, b *Node) *Node           { return &Node{K: KIf, Args: []*Node{c, a, b}} }

func (n *Node) Clone() *Node {
	if n == nil {
		return nil
	}
	c := &Node{K: n.K, Name: n.Name, Raw: n.Raw}
	if n.Val != nil {
		v := *n.Val
		v.IL = append([]int64(nil), v.IL...)
		v.SL = append([]string(nil), v.SL...)
		c.Val = &v
	}
	for _, a := range n.Args {
		c.Args = append(c.Args, a.Clone())
	}
	return c
}

func (n *Node) Size() int {
	s := 1
	for _, a := range n.Args {
		s += a.Size()
	}
	return s
}

func (n *Node) Depth() int {
	d := 0
	for _, a := range n.Args {
		if x := a.Depth(); x > d {
			d = x
		}
	}
	return d + 1
}

// Walk visits every node, parents first.
func (n *Node) Walk(f func(*Node)) {
	f(n)
	for _, a := range n.Args {
		a.Walk(f)
	}
}

// IsAnd / IsOr: the three spellings each (README operator table).
func IsAndName(s string) bool { return s == "and" || s == "&" || s == "&&" }
func IsOrName(s string) bool  { return s == "or" || s == "|" || s == "||" }

func (n *Node) IsAnd() bool { return n.K == KOp && IsAndName(n.Name) }
func (n *Node) IsOr() bool  { return n.K == KOp && IsOrName(n.Name) }
func (n *Node) IsLeaf() bool {
	return n.K == KLit || n.K == KConst || n.K == KVar
}

// Src prints the tree in the prefix notation Compile accepts. String literals
// are written raw between double quotes (the lexer has no escapes), so the
// generator never produces a double quote inside a string literal.
func (n *Node) Src() string {
	var sb strings.Builder
	n.src(&sb)
	return sb.String()
}

func (n *Node) src(sb *strings.Builder) {
	switch n.K {
	case KLit:
		if n.Raw != "" {
			sb.WriteString(n.Raw)
		} else {
			litSrc(sb, *n.Val)
		}
	case KConst, KVar:
		sb.WriteString(n.Name)
	case KOp:
		sb.WriteByte('(')
		sb.WriteString(n.Name)
		for _, a := range n.Args {
			sb.WriteByte(' ')
			a.src(sb)
		}
		sb.WriteByte(')')
	case KIf:
		sb.WriteString("(if")
		for _, a := range n.Args {
			sb.WriteByte(' ')
			a.src(sb)
		}
		sb.WriteByte(')')
	}
}

func litSrc(sb *strings.Builder, v V) {
	switch v.T {
	case "b":
		if v.B {
			sb.WriteString("true")
		} else {
			sb.WriteString("false")
		}
	case "i":
		sb.WriteString(strconv.FormatInt(v.I, 10))
	case "s":
		sb.WriteByte('"')
		sb.WriteString(v.S)
		sb.WriteByte('"')
	case "il":
		sb.WriteByte('(')
		for i, x := range v.IL {
			if i > 0 {
				sb.WriteByte(' ')
			}
			sb.WriteString(strconv.FormatInt(x, 10))
		}
		sb.WriteByte(')')
	case "sl":
		sb.WriteByte('(')
		for i, x := range v.SL {
			if i > 0 {
				sb.WriteByte(' ')
			}
			sb.WriteByte('"')
			sb.WriteString(x)
			sb.WriteByte('"')
		}
		sb.WriteByte(')')
	default:
		panic("sim: value of type " + v.T + " has no literal syntax")
	}
}

// TopSrc is what is handed to Compile: prefix notation requires the whole text
// to be one parenthesised form, so a bare leaf is wrapped as (if true x x),
// which evaluates x once and nothing else.
func TopSrc(n *Node) string {
	if n.K == KOp || n.K == KIf {
		return n.Src()
	}
	if n.K == KLit && (n.Val.T == "il" || n.Val.T == "sl") {
		// a top-level list literal is itself a parenthesised form
		return n.Src()
	}
	return "(if true " + n.Src() + " " + n.Src() + ")"
}

// StaticType derives the type a sub-expression evaluates to when it does not
// fail, from the configuration's declarations. TAny when it cannot be told.
func StaticType(cfg *CfgSpec, n *Node) Ty {
	switch n.K {
	case KLit:
		switch n.Val.T {
		case "b":
			return TBool
		case "i":
			return TInt
		case "s":
			return TStr
		case "il":
			return TIntList
		case "sl":
			return TStrList
		case "int":
			return TRawInt
		}
		return TAny
	case KConst:
		if v, ok := cfg.Consts[n.Name]; ok {
			return StaticType(cfg, Lit(v))
		}
		return TAny
	case KVar:
		for _, v := range cfg.Vars {
			if v.Name == n.Name {
				return v.Ty
			}
		}
		return TAny
	case KIf:
		a, b := StaticType(cfg, n.Args[1]), StaticType(cfg, n.Args[2])
		if a == b {
			return a
		}
		return TAny
	}
	if c, ok := builtinNames[n.Name]; ok {
		switch c {
		case "add", "sub", "mul", "div", "mod", "date", "datetime", "t_date", "t_time", "td_date", "td_time", "version":
			return TInt
		}
		return TBool
	}
	for _, o := range cfg.Ops {
		if o.Name == n.Name {
			return o.Ret
		}
	}
	return TAny
}

// InDomain reports whether every operand of every and/or is statically
// boolean: the domain on which the short-circuit semantics is documented.
func InDomain(cfg *CfgSpec, n *Node) bool {
	ok := true
	n.Walk(func(x *Node) {
		if x.IsAnd() || x.IsOr() {
			if len(x.Args) < 2 {
				ok = false
			}
			for _, a := range x.Args {
				if StaticType(cfg, a) != TBool {
					ok = false
				}
			}
		}
	})
	return ok
}
