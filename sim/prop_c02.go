package sim

import (
	"fmt"
	"strings"
)

// C02 — Every optimisation combination preserves the meaning of the expression.
//
// Simulated system: sixteen rule loaders (one per optimisation subset), each
// compiling the same source via options and via an equivalent ";;;;" directive
// text, under one cost map; all variants are evaluated against one identical
// simulated environment whose faults are keyed by identity (variable name,
// operator+arguments), never by call index, because reordering changes the
// order of calls.
type propC02 struct{}

func init() {
	Register(propC02{})
	meta["C02"] = propMeta{
		Rule: "A case is one world: generated program + configuration + cost map (none, per-name, variable/operator defaults, negative, zero, 1e308, +-Inf, NaN), compiled under all 16 optimisation subsets by both routes (32 programs), evaluated under 1-4 plans (bindings of all variables; identity-keyed operator and fetch failures). Clauses checked: A any two variants that both return a value agree; B when evaluating every reachable operand succeeds (every and/or operand in whatever order, of an `if` the condition and the branch taken) all variants return the unoptimised value; C with Reordering off every variant returns the unoptimised value whenever the real unoptimised run returns one (only in plans without fetch failures); routes: options and directive give the same Dump and the same outcome. evaluations = calls into the library. non-trivial = distinct worlds with and/or/if, at least two seam calls in the unoptimised run, and at least one variant whose Dump differs from the unoptimised Dump.",
		Assumptions: []string{
			"baseline is the real unoptimised engine (mask 0), so C02 does not inherit errors of the reference model; the strict reference interpreter only gates clause B",
			"an injected failure of a leaf fetch is not a violation of clause C (FastEvaluation may fetch both leaves of a two-leaf and/or, which C03 permits), so clause C is checked only in plans without fetch failures",
			"stateless-declared user operators are never made to fail (folding them at compile time is permitted)",
			"sampling: a clean batch is evidence, not proof",
		},
		Engines:    []string{"INLINE"},
		FaultKinds: []string{"get_error (by name)", "op_error (by operator+arguments)"},
	}
}

func (propC02) ID() string { return "C02" }

var costPool = []string{"-5", "0", "1", "3.5", "20", "100", "1e308", "-1e308", "+Inf", "-Inf", "NaN", "1e-300"}

func (propC02) Gen(r *Rng, tier string) *World {
	k := DrawKnobs(r)
	k.PUnbound = 0
	k.BoolBias = []float64{2, 4, 6}[r.Intn(3)]
	k.RootBool = r.P(0.85)
	if r.P(0.4) {
		k.ConstHeavy = true
	}
	if r.P(0.5) {
		k.FailOp = true
	}
	k.RawConsts = r.P(0.3)
	g := NewGen(r, k)
	w := &World{Prop: "C02"}
	w.Prog = g.Program()
	w.Cfg = g.C
	w.Cfg.DirStyle = r.Intn(8)
	w.Cfg.ViaAPI = r.P(0.4)
	w.Cfg.Event = []string{"", "", "", "", "report"}[r.Intn(5)]
	// cost map
	if r.P(0.7) {
		w.Cfg.Costs = map[string]string{}
		names := []string{"variable", "operator"}
		for _, v := range w.Cfg.Vars {
			names = append(names, v.Name)
		}
		for _, o := range w.Cfg.Ops {
			names = append(names, o.Name)
		}
		names = append(names, "and", "or", "=", "+", ">", "in", "not")
		n := r.Range(1, 5)
		for i := 0; i < n; i++ {
			w.Cfg.Costs[names[r.Intn(len(names))]] = costPool[r.Intn(len(costPool))]
		}
	}
	ops := SpecMap(w.Cfg.Ops)
	np := r.Range(1, 3)
	for i := 0; i < np; i++ {
		base := Plan{Bind: g.Binding()}
		w.Calls = append(w.Calls, base)
		if r.P(0.5) {
			// identity-keyed failures, drawn from what the unoptimised run actually calls
			ref := RefL2R(&w.Cfg, ops, w.Prog, &base)
			p := base.Clone()
			for _, c := range ref.Env.Log {
				if c.Kind == "op" && c.Err == nil && !ops[c.Name].Stateless && r.P(0.3) {
					p.FailOps = append(p.FailOps, OpKey(c.Name, c.Args))
				}
				if c.Kind == "get" && r.P(0.1) {
					p.FailVars = append(p.FailVars, c.Name)
				}
			}
			if len(p.FailOps)+len(p.FailVars) > 0 {
				w.Calls = append(w.Calls, p)
			}
		}
	}
	return w
}

type c02variant struct {
	mask   int
	direct bool
	c      *Compiled
	dump   string
}

func (v c02variant) String() string {
	r := "options"
	if v.direct {
		r = "directive"
	}
	return fmt.Sprintf("mask=%d(%s)/%s", v.mask, maskName(v.mask), r)
}

func maskName(m int) string {
	var s []string
	for i, n := range []string{"CF", "RN", "FE", "RO"} {
		if m&(1<<i) != 0 {
			s = append(s, n)
		}
	}
	if len(s) == 0 {
		return "none"
	}
	return strings.Join(s, "+")
}

func (propC02) Run(w *World, st *Stats) *Violation {
	ops := SpecMap(w.Cfg.Ops)
	wh := w.Hash()
	st.World(wh)
	masks := w.Masks
	if len(masks) == 0 {
		for m := 0; m < 16; m++ {
			masks = append(masks, m)
		}
	}
	hasZero := false
	for _, m := range masks {
		if m == 0 {
			hasZero = true
		}
	}
	if !hasZero {
		masks = append([]int{0}, masks...)
	}
	withMasks := func(ms ...int) *World {
		c := w.Clone()
		c.Masks = ms
		return c
	}
	var vars []c02variant
	for _, m := range masks {
		for _, direct := range []bool{false, true} {
			cenv := NewEnv(ops, &Plan{})
			cenv.Phase = "compile"
			c, err, pan := CompileSpec(&w.Cfg, w.Prog, m, direct, cenv)
			st.Evals++
			if pan != nil {
				return viol(withMasks(m), "compile-panic", "Compile panicked under %s: %v", maskName(m), pan)
			}
			if err != nil {
				return viol(withMasks(m), "compile-error", "Compile rejected a well-formed program under %s (directive=%v): %v", maskName(m), direct, err)
			}
			o := c.RunEnv(NewEnv(ops, &Plan{}), "dump")
			if o.Panic != nil {
				return viol(withMasks(m), "dump-panic", "Dump panicked under %s: %v", maskName(m), o.Panic)
			}
			vars = append(vars, c02variant{mask: m, direct: direct, c: c, dump: o.Text})
		}
	}
	// routes must be equivalent: same decompiled program
	changed := false
	for i := 0; i+1 < len(vars); i += 2 {
		if vars[i].dump != vars[i+1].dump {
			return viol(withMasks(vars[i].mask), "route-mismatch", "options and directive routes compile %s differently:\noptions:   %s\ndirective: %s",
				maskName(vars[i].mask), oneLine(vars[i].dump), oneLine(vars[i+1].dump))
		}
		if vars[i].dump != vars[0].dump {
			changed = true
		}
	}
	st.T("world %x src=%s", wh, w.Prog.Src())
	for _, v := range vars {
		if !v.direct {
			st.T(" %s dump=%s", v, oneLine(v.dump))
		}
	}
	control := hasControl(w.Prog)
	for ci := range w.Calls {
		p := &w.Calls[ci]
		fetchFaults := len(p.FailVars) > 0
		outs := make([]Outcome, len(vars))
		for i := range vars {
			outs[i] = vars[i].c.Run(ops, p, "eval")
			st.Evals++
			st.Steps += int64(outs[i].Env.N)
			st.AddFaults(outs[i].Env.Fired)
			st.Path(pathHash(&outs[i]))
			if outs[i].Panic != nil {
				return viol(narrowed(withMasks(vars[i].mask), p), "panic", "engine panicked under %s: %v\n%s", vars[i], outs[i].Panic, outs[i].Stack)
			}
			if !vars[i].direct {
				st.T(" call %d %s -> %s %s", ci, vars[i], outs[i].Class(), ValStr(outs[i].Val))
			}
		}
		base := &outs[0] // mask 0, options route
		if control && base.Env.N >= 2 && changed {
			st.Nontrivial(wh)
		}
		// routes: same outcome
		for i := 0; i+1 < len(vars); i += 2 {
			a, b := &outs[i], &outs[i+1]
			if (a.Err == nil) != (b.Err == nil) || (a.Err == nil && !ValEq(a.Val, b.Val)) {
				return viol(narrowed(withMasks(vars[i].mask), p), "route-mismatch", "options and directive routes of %s behave differently: %s %s vs %s %s",
					maskName(vars[i].mask), a.Class(), ValStr(a.Val), b.Class(), ValStr(b.Val))
			}
		}
		// clause A: any two variants that both return a value agree
		first := -1
		for i := range outs {
			if outs[i].Err != nil {
				continue
			}
			if first < 0 {
				first = i
				continue
			}
			if !ValEq(outs[i].Val, outs[first].Val) {
				return viol(narrowed(withMasks(vars[first].mask, vars[i].mask), p), "value-disagreement",
					"%s returns %s, %s returns %s\n%s: %s\n%s: %s", vars[first], ValStr(outs[first].Val), vars[i], ValStr(outs[i].Val),
					vars[first], oneLine(vars[first].dump), vars[i], oneLine(vars[i].dump))
			}
		}
		// clause B: nothing can fail => every variant returns the unoptimised value
		senv := NewEnv(ops, p)
		sit := &Interp{Consts: w.Cfg.ConstVals(), Env: senv, IfLazy: true}
		_, serr := sit.Strict(w.Prog)
		if serr == nil {
			st.Probe("clauseB_worlds_nothing_can_fail")
			for i := range outs {
				if outs[i].Err != nil {
					return viol(narrowed(withMasks(vars[i].mask), p), "clauseB-error",
						"no reachable operand of the program can fail under this plan, yet %s returns error %v\ndump: %s", vars[i], outs[i].Err, oneLine(vars[i].dump))
				}
				if base.Err == nil && !ValEq(outs[i].Val, base.Val) {
					return viol(narrowed(withMasks(vars[i].mask), p), "clauseB-value",
						"%s returns %s, unoptimised returns %s", vars[i], ValStr(outs[i].Val), ValStr(base.Val))
				}
			}
		}
		// clause C: Reordering off => unoptimised value whenever the unoptimised run succeeds
		if base.Err == nil && !fetchFaults {
			st.Probe("clauseC_plans")
			for i := range outs {
				if vars[i].mask&OptRO != 0 {
					continue
				}
				if outs[i].Err != nil {
					st.Probe("clauseC_violations_seen")
					return viol(narrowed(withMasks(vars[i].mask), p), "clauseC-error",
						"unoptimised left-to-right evaluation returns %s, but %s (Reordering off) fails: %v\ndump: %s", ValStr(base.Val), vars[i], outs[i].Err, oneLine(vars[i].dump))
				}
				if !ValEq(outs[i].Val, base.Val) {
					return viol(narrowed(withMasks(vars[i].mask), p), "clauseC-value",
						"unoptimised returns %s, %s returns %s", ValStr(base.Val), vars[i], ValStr(outs[i].Val))
				}
			}
			if base.Env.Fired["op_error"] == 0 {
				// guard pattern reached: something later would have failed had it been evaluated?
			}
		}
		if base.Err != nil {
			st.Probe("unoptimised_run_fails")
		}
	}
	// reach probes from public observables
	for _, v := range vars {
		if v.direct {
			continue
		}
		if v.mask == OptRO && v.dump != vars[0].dump {
			st.Probe("reordering_changed_program")
		}
		if v.mask == OptRN && v.dump != vars[0].dump {
			st.Probe("flattening_changed_program")
		}
		if v.mask == OptCF && v.dump != vars[0].dump {
			st.Probe("folding_changed_program")
		}
	}
	st.Sample(w.Canon())
	return nil
}

func oneLine(s string) string { return strings.Join(strings.Fields(s), " ") }
