#!/bin/bash
# seeds.sh [id...] : sensitivity regression — re-runs every kept seeded change
# (or the named ones) against the checks recorded as catching it, and writes
# seeded/RESULTS.md. Two stages per seed: the recorded checks with a
# ${STAGE1_S:-25}-second search budget each; only if none of them reports a
# violation, the full quick tier. The seed itself (suite passes with it, demo
# fails with it) was confirmed when it was kept and is not re-confirmed here
# (CONFIRM=1 to do so). A seed counts as caught if at least one check exits 1.
# VERIF_HOME=<copy of /verif> runs it from a snapshot.
H=${VERIF_HOME:-/verif}
cd $H
ids="$@"; [ -z "$ids" ] && ids=$(ls seeded | grep -v RESULTS)
out=seeded/RESULTS.md
skip=1; [ -n "${CONFIRM:-}" ] && skip=""
echo "# Seeded-change regression ($(date -u +%Y-%m-%dT%H:%MZ), /verif @ $(git rev-parse --short HEAD))" > $out.tmp
echo >> $out.tmp
echo "Stage 1: each recorded check with a ${STAGE1_S:-25} s search budget; stage 2 (only after a stage-1 miss): the full quick tier." >> $out.tmp
echo >> $out.tmp; echo "| seed | checks run | result |" >> $out.tmp; echo "|---|---|---|" >> $out.tmp
for id in $ids; do
  [ -f seeded/$id/meta.json ] || continue
  checks=$(python3 -c "
import json
m=json.load(open('seeded/$id/meta.json'))
print(' '.join(sorted(set(c.split()[0] for c in m['caught_by']))))")
  if [ "$checks" = "MISSED" ]; then
    echo "| $id | - | not caught (recorded as such; see meta.json) |" >> $out.tmp; echo "$id recorded-miss"; continue
  fi
  stage=1
  res=$(SKIP_CONFIRM=$skip VERIF_BUDGET_S=${STAGE1_S:-25} tools/tryseed.sh $H/seeded/$id reg$id $checks 2>&1)
  caught=$(echo "$res" | grep "^check" | grep -c "exit=1")
  if [ "$caught" -lt 1 ]; then
    stage=2
    res=$(SKIP_CONFIRM=$skip tools/tryseed.sh $H/seeded/$id reg$id $checks 2>&1)
    caught=$(echo "$res" | grep "^check" | grep -c "exit=1")
  fi
  line=$(echo "$res" | grep "^check" | sed 's/violation class=//' | cut -c1-110 | tr '\n' ';' | tr '|' '/')
  status="MISSED"; [ "$caught" -ge 1 ] && status="caught (stage $stage)"
  echo "$res" | grep -q "patch does not apply" && status="patch no longer applies"
  echo "$res" | grep -q "bad seed" && status="$status (seed no longer valid)"
  echo "| $id | $checks | $status: $line |" >> $out.tmp
  echo "$id $status"
done
mv $out.tmp $out
