#!/bin/bash
# seeds.sh [id...] : sensitivity regression — re-runs every kept seeded change
# (or the named ones) against the checks recorded as catching it, and writes
# seeded/RESULTS.md. VERIF_HOME=<copy of /verif> runs it from a snapshot. A seed counts as caught if at least one check exits 1.
H=${VERIF_HOME:-/verif}
cd $H
ids="$@"; [ -z "$ids" ] && ids=$(ls seeded | grep -v RESULTS)
out=seeded/RESULTS.md
echo "# Seeded-change regression ($(date -u +%Y-%m-%dT%H:%MZ), /verif @ $(git rev-parse --short HEAD))" > $out.tmp
echo >> $out.tmp; echo "| seed | checks run | result |" >> $out.tmp; echo "|---|---|---|" >> $out.tmp
for id in $ids; do
  [ -f seeded/$id/meta.json ] || continue
  checks=$(python3 -c "
import json
m=json.load(open('seeded/$id/meta.json'))
print(' '.join(sorted(set(c.split()[0] for c in m['caught_by']))))")
  res=$(tools/tryseed.sh $H/seeded/$id reg$id $checks 2>&1)
  ok=$(echo "$res" | grep -c "(ok)")
  caught=$(echo "$res" | grep "^check" | grep -c "exit=1")
  line=$(echo "$res" | grep "^check" | sed 's/violation class=//' | cut -c1-110 | tr '\n' ';' | tr '|' '/')
  status="MISSED"; [ "$caught" -ge 1 ] && status="caught"; [ "$ok" -lt 3 ] && status="$status (seed no longer valid: $ok/3)"
  echo "| $id | $checks | $status: $line |" >> $out.tmp
  echo "$id $status"
done
mv $out.tmp $out
