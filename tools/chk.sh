#!/bin/bash
# chk.sh <prop> [runs] : run a quick check and print the verdict line compactly
p=$1; r=${2:-}
out=$(cd /verif && VERIF_RUNS=$r ./check $p quick 2>&1); code=$?
echo "$p exit=$code $(echo "$out" | grep '^property=' | sed 's/.*worlds=/worlds=/; s/ evals=.* violations=/ violations=/')"
[ $code -ne 0 ] && echo "$out" | grep -A2 "violation class\|HARNESS" | cut -c1-300 | head -12
exit 0
