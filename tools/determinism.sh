#!/bin/bash
# determinism.sh <property> [seeds] : the wide determinism protocol — 30 processes
# (10 each at GOMAXPROCS 1, 4, 16) run the same run indices in trace mode; all
# per-run trace hashes must be identical.
p=$1; n=${2:-64}
cd /verif; d=$(mktemp -d /verif/bin/det-XXXX)
for i in $(seq 1 30); do
  g=$(( i % 3 == 0 ? 16 : (i % 3 == 1 ? 1 : 4) ))
  ( GOMAXPROCS=$g VERIF_ROLE=worker VERIF_WORKER_SPEC="{\"prop\":\"$p\",\"tier\":\"quick\",\"base\":77,\"start\":0,\"stride\":1,\"count\":$n,\"trace\":true,\"out\":\"$d/o$i.json\"}" ${BIN:-bin/sim.test} -test.run '^TestWorker$' -test.timeout 0 >/dev/null 2>&1
    python3 -c "
import json,hashlib
t=json.load(open('$d/o$i.json'))['traces']
print(hashlib.sha1(json.dumps(t,sort_keys=True).encode()).hexdigest(), len(t))" > $d/h$i ) &
  if (( i % 10 == 0 )); then wait; fi
done; wait
echo "$p: $(cat $d/h* | sort | uniq -c | tr '\n' ';')"
rm -rf $d
