#!/bin/bash
# sweep.sh "<props>" [nseeds] [runs] : run quick checks under several seeds on /repo;
# prints one verdict line per run. Use after every generator/oracle change.
props=${1:-"C01 C02 C03 C04 C05 C06 C07 C08 C10 C11 C12"}; n=${2:-3}; runs=${3:-}
for s in $(seq 101 $((100+n))); do for p in $props; do
  out=$(cd /verif && VERIF_SEED=$s VERIF_RUNS=$runs ./check $p quick 2>&1); code=$?
  echo "seed=$s $p exit=$code $(echo "$out" | grep '^property=' | sed 's/.*worlds=/worlds=/; s/ evals=.* violations=/ violations=/')"
  [ $code -ne 0 ] && echo "$out" | grep -A2 "violation class\|HARNESS" | cut -c1-300 | head -8
done; done
exit 0
