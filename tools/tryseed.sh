#!/bin/bash
# tryseed.sh <dir-with-patch.diff+demo_test.go> <name> <property>...
# Confirms a seeded change (suite passes with it, demo fails with it and passes
# without it) in a scratch worktree, then runs the named checks against that
# worktree (VERIF_REPO). Leaves nothing behind. SKIP_CONFIRM=1 skips the
# confirmation (the patch must still apply); VERIF_BUDGET_S caps each check.
set -u
export GOFLAGS=-mod=mod GOPROXY=off GOSUMDB=off
src=$1; name=$2; shift 2
H=${VERIF_HOME:-/verif}
wt=/tmp/ev-$name
git -C /repo worktree remove --force $wt >/dev/null 2>&1
git -C /repo worktree add -q --detach $wt HEAD || exit 2
cd $wt
race=""
grep -q -- "-race" $src/demo_test.go && race="-race"
if [ -z "${SKIP_CONFIRM:-}" ]; then
cp $src/demo_test.go $wt/zz_demo_test.go
if go test $race -run 'TestDemo' -count=1 . >/tmp/ev-$name.base.log 2>&1; then echo "demo without change: PASS (ok)"; else echo "demo without change: FAIL (bad seed)"; tail -5 /tmp/ev-$name.base.log; fi
rm -f $wt/zz_demo_test.go
fi
if ! git apply $src/patch.diff; then echo "patch does not apply"; cd /; git -C /repo worktree remove --force $wt; exit 2; fi
if [ -z "${SKIP_CONFIRM:-}" ]; then
if go test -count=1 ./... >/tmp/ev-$name.suite.log 2>&1; then echo "suite with change: PASS (ok)"; else echo "suite with change: FAIL (bad seed)"; tail -5 /tmp/ev-$name.suite.log; fi
cp $src/demo_test.go $wt/zz_demo_test.go
if go test $race -run 'TestDemo' -count=1 . >/tmp/ev-$name.demo.log 2>&1; then echo "demo with change: PASS (bad seed)"; else echo "demo with change: FAIL (ok)"; fi
rm -f $wt/zz_demo_test.go
fi
cd $H
for p in "$@"; do
  out=$(VERIF_REPO=$wt timeout 900 ./check $p ${TIER:-quick} 2>&1); code=$?
  echo "check $p exit=$code: $(echo "$out" | grep -m1 'violation class' ) $(echo "$out" | grep -A2 -m1 'violation class' | sed -n 2p | cut -c1-200)"
  [ $code -ge 2 ] && echo "$out" | tail -5 | cut -c1-300
done
rm -f /tmp/ev-$name.*.log
cd /; git -C /repo worktree remove --force $wt
tag=$(echo "$wt" | tr -c 'A-Za-z0-9' '_'); rm -rf $H/bin/alt-$tag
