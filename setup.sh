#!/bin/sh
# Builds the harness once and warms the go1.26.8 build caches (normal and -race)
# into /verif/.gocache. Offline; uses only files on disk.
cd "$(dirname "$0")" || exit 2
export GOFLAGS=-mod=mod GOPROXY=off GOSUMDB=off GOTOOLCHAIN=local
export GOCACHE=/verif/.gocache
GO=/opt/veriftools/go1.26.8/bin/go
mkdir -p bin evidence replays
cp /repo/go.sum sim/go.sum 2>/dev/null
(cd sim && $GO test -c -o ../bin/sim.test . && $GO test -race -c -o ../bin/sim.race.test .) || exit 2
echo setup ok
